#!/opt/veriftools/pyvenv/bin/python
"""C13 churn bound as an arithmetic lemma over hashbrown's capacity rounding.

Per-step fact (decided by the Kani harnesses grow_insert_*): lru-mem reallocates
during insert only when capacity() == len, and requests max(2*len, 1).
Lemma (decided here, for every 1 <= len < 2^32, 64-bit bit-vectors):
    cap(buckets(2*len)) <  max(4*len, 16)      (growth is bounded)
    cap(buckets(2*len)) >= 2*len               (the request is honoured)
Together: however long the cache churns, automatic growth never takes the
capacity to max(4 * peak len, 16) or beyond.

The two rounding functions are re-read from the hashbrown source that
/repo/Cargo.lock pins; if their text no longer matches the encoded shape the
script exits 2 (inconclusive) instead of proving a stale lemma.
Prints one JSON object; exit 0 = both unsat (lemma holds), 1 = counterexample.
"""
import json, re, subprocess, sys, time, glob, os
from z3 import *

def pinned_hashbrown():
    lock = open('/repo/Cargo.lock').read()
    m = re.search(r'name = "hashbrown"\nversion = "([^"]+)"', lock)
    ver = m.group(1) if m else None
    cands = glob.glob(os.path.expanduser('~/.cargo/registry/src/*/hashbrown-%s/src/raw/mod.rs' % ver))
    return ver, (cands[0] if cands else None)

def norm(t):
    return re.sub(r'\s+', ' ', re.sub(r'//.*', '', t)).strip()

EXPECT_C2B = norm('''fn capacity_to_buckets(cap: usize) -> Option<usize> { debug_assert_ne!(cap, 0);
 if cap < 8 { return Some(if cap < 4 { 4 } else { 8 }); }
 let adjusted_cap = cap.checked_mul(8)? / 7;
 Some(adjusted_cap.next_power_of_two()) }''')
EXPECT_B2C = norm('''fn bucket_mask_to_capacity(bucket_mask: usize) -> usize { if bucket_mask < 8 { bucket_mask } else { ((bucket_mask + 1) / 8) * 7 } }''')

def extract(src, name):
    i = src.index('fn %s(' % name)
    j = src.index('{', i)
    depth = 0
    k = j
    while True:
        if src[k] == '{': depth += 1
        elif src[k] == '}':
            depth -= 1
            if depth == 0: break
        k += 1
    return norm(src[i:k+1])

def main():
    ver, path = pinned_hashbrown()
    out = {"hashbrown_version": ver, "source": path}
    if not path:
        out["error"] = "pinned hashbrown source not found in the cargo registry"
        print(json.dumps(out)); return 2
    src = open(path).read()
    c2b, b2c = extract(src, 'capacity_to_buckets'), extract(src, 'bucket_mask_to_capacity')
    if c2b != EXPECT_C2B or b2c != EXPECT_B2C:
        out["error"] = "hashbrown's rounding functions changed shape; lemma encoding is stale"
        out["found"] = [c2b, b2c]
        print(json.dumps(out)); return 2
    W = 64
    ln, p = BitVec('len', W), BitVec('p', W)
    c = ln * 2
    def cap_of_buckets(b):  # bucket_mask_to_capacity(b - 1)
        return If(ULT(b - 1, 8), b - 1, UDiv(b, BitVecVal(8, W)) * 7)
    adj = UDiv(c * 8, BitVecVal(7, W))          # no overflow: len < 2^32
    is_pow2 = And(p != 0, (p & (p - 1)) == 0)
    npo2 = And(is_pow2, UGE(p, adj), Or(p == 1, ULT(LShR(p, 1), adj)))   # p = adj.next_power_of_two()
    buckets = If(ULT(c, 4), BitVecVal(4, W), If(ULT(c, 8), BitVecVal(8, W), p))
    newcap = cap_of_buckets(buckets)
    bound = If(UGT(ln * 4, BitVecVal(16, W)), ln * 4, BitVecVal(16, W))
    dom = [UGE(ln, 1), ULT(ln, BitVecVal(1 << 32, W)), Implies(UGE(c, 8), npo2)]
    results = []
    rc = 0
    for name, neg in (("growth_below_max(4len,16)", UGE(newcap, bound)), ("growth_at_least_2len", ULT(newcap, c))):
        s = Solver(); s.add(*dom); s.add(neg)
        t = time.time(); r = s.check(); dt = time.time() - t
        item = {"query": name, "result": str(r), "solver": "z3 " + get_version_string(), "seconds": round(dt, 3)}
        if r == sat:
            item["counterexample_len"] = s.model()[ln].as_long(); rc = 1
        elif r != unsat:
            rc = 2
        # cross-check with cvc5 on the SMT-LIB text
        try:
            smt = "(set-logic ALL)\n" + s.to_smt2()
            q = subprocess.run(["cvc5", "--lang", "smt2"], input=smt, capture_output=True, text=True, timeout=120)
            item["cvc5"] = q.stdout.strip().splitlines()[0] if q.stdout.strip() else q.stderr.strip()[:100]
            if "(error" in q.stdout or (item["cvc5"] not in ("sat", "unsat")):
                item["cvc5_inconclusive"] = True
            elif item["cvc5"] != str(r):
                rc = 2; item["disagreement"] = True
        except Exception as e:
            item["cvc5"] = "not run: %s" % e
        results.append(item)
    # validate the encoding on concrete values against the Rust arithmetic re-implemented in Python
    def py_round(req):
        if req == 0: return 0
        b = 4 if req < 4 else 8 if req < 8 else 1 << ((req * 8 // 7) - 1).bit_length()
        return b - 1 if b <= 8 else b // 8 * 7
    bad = [l for l in range(1, 200000) if not (2 * l <= py_round(2 * l) < max(4 * l, 16))]
    out["concrete_cross_check"] = {"range": "1..200000", "violations": len(bad)}
    if bad: rc = 1
    out["queries"] = results
    out["bound"] = "1 <= len < 2^32, 64-bit bit-vectors; larger tables outside the lemma"
    print(json.dumps(out))
    return rc

if __name__ == '__main__':
    sys.exit(main())
