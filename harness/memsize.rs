//! Size-estimation harnesses (C08, C09) on the real `mem_size.rs` impls and the
//! real `std` containers, with symbolic shapes (capacity <= 4, length <= capacity).
use super::*;
use std::collections::BinaryHeap;
use std::ffi::{CString, OsString};
use std::mem::{size_of, MaybeUninit};
use std::num::Wrapping;
use std::path::PathBuf;

// ---------------------------------------------------------------------------
// C09 oracle: the number of bytes the allocator handed out for the buffer at p
// ---------------------------------------------------------------------------

/// True iff the allocation starting at `p` is exactly `bytes` long (for
/// `bytes == 0`: `p` is not the start of a live allocation of >= 1 byte).
/// Kani: CBMC's object bounds (`kani::mem::can_dereference`); native replay:
/// the replay runner's tracking allocator.
#[cfg(kani)]
pub fn held(p: *const u8, bytes: usize) -> bool {
    let q = p as *const MaybeUninit<u8>;
    let exact = kani::mem::can_dereference(std::ptr::slice_from_raw_parts(q, bytes));
    let more = kani::mem::can_dereference(std::ptr::slice_from_raw_parts(q, bytes + 1));
    exact && !more
}
#[cfg(not(kani))]
pub static ALLOC_QUERY: std::sync::OnceLock<fn(*const u8) -> Option<usize>> = std::sync::OnceLock::new();
#[cfg(not(kani))]
pub fn held(p: *const u8, bytes: usize) -> bool {
    match ALLOC_QUERY.get() {
        Some(q) => match q(p) {
            Some(sz) => sz == bytes,
            None => bytes == 0,
        },
        None => {
            eprintln!("REPLAY-MISMATCH: no tracking allocator installed");
            std::process::exit(3)
        }
    }
}

/// The buffer of a container whose own accessor reports `cap` elements of
/// `elem` bytes holds exactly `claimed` bytes from the allocator. A container
/// that never allocated (capacity 0) has a dangling pointer, which CBMC's
/// object bounds cannot be asked about; it must then claim 0.
pub fn buffer_held(p: *const u8, cap_bytes: usize, claimed: usize) -> bool {
    if cap_bytes == 0 {
        claimed == 0
    } else {
        held(p, claimed)
    }
}

fn sym_cap_len(maxcap: usize) -> (usize, usize) {
    let cap: usize = sym::any();
    let len: usize = sym::any();
    sym::assume(cap <= maxcap && len <= cap);
    (cap, len)
}

fn vec_of<T>(cap: usize, len: usize, bound: usize, mut mk: impl FnMut(usize) -> T) -> Vec<T> {
    let mut v = Vec::with_capacity(cap);
    let mut i = 0;
    while i < bound {
        if i < len {
            v.push(mk(i));
        }
        i += 1;
    }
    v
}

fn string_with(cap: usize, len: usize, bound: usize) -> String {
    let mut s = String::with_capacity(cap);
    let mut i = 0;
    while i < bound {
        if i < len {
            s.push('a');
        }
        i += 1;
    }
    s
}

/// mem_size = value_size + heap_size (C08) for one value.
macro_rules! compositional {
    ($x:expr) => {
        vassert!([C08], $x.mem_size() == $x.value_size() + $x.heap_size(), "mem_size differs from value_size + heap_size");
    };
}

// ---------------------------------------------------------------------------
// Vec / String / Box / BinaryHeap with symbolic capacity and length
// ---------------------------------------------------------------------------

/// script: 0 with_capacity+push, 1 then shrink_to_fit, 2 then reserve(extra), 3 then truncate(len-1)
pub fn ms_vec_u16(script: u8) {
    let (cap, len) = sym_cap_len(4);
    let mut v: Vec<u16> = vec_of(cap, len, 4, |i| i as u16);
    match script {
        1 => v.shrink_to_fit(),
        2 => {
            let extra: usize = sym::any();
            sym::assume(extra <= 3);
            v.reserve(extra);
        }
        3 => v.truncate(if len > 0 { len - 1 } else { 0 }),
        _ => {}
    }
    vcover!(if script != 1, v.capacity() > v.len() && v.len() > 0, "vec: spare capacity");
    vcover!(v.capacity() == 0, "vec: no allocation");
    vassert!([C08], v.heap_size() == v.capacity() * 2, "Vec<u16>::heap_size is not capacity x element size");
    vassert!([C08], v.value_size() == size_of::<Vec<u16>>(), "value_size of a sized type is not size_of");
    compositional!(v);
    vassert!([C09], buffer_held(v.as_ptr() as *const u8, v.capacity() * 2, v.heap_size()), "Vec<u16>::heap_size differs from the bytes held from the allocator");
    std::mem::forget(v);
    vend!();
}

pub fn ms_string(script: u8) {
    let (cap, len) = sym_cap_len(4);
    let mut s = string_with(cap, len, 4);
    match script {
        1 => s.shrink_to_fit(),
        2 => {
            let extra: usize = sym::any();
            sym::assume(extra <= 3);
            s.reserve(extra);
        }
        3 => s.truncate(if len > 0 { len - 1 } else { 0 }),
        _ => {}
    }
    vcover!(if script != 1, s.capacity() > s.len(), "string: spare capacity");
    vassert!([C08], s.heap_size() == s.capacity(), "String::heap_size is not its capacity");
    compositional!(s);
    vassert!([C09], buffer_held(s.as_ptr(), s.capacity(), s.heap_size()), "String::heap_size differs from the bytes held from the allocator");
    // &str and &String are borrowed: 0
    let r: &str = &s;
    let rs: &String = &s;
    vassert!([C08, C09], <&str as HeapSize>::heap_size(&r) == 0 && <&String as HeapSize>::heap_size(&rs) == 0, "a borrowed reference contributes heap size");
    vassert!([C08], <&str as ValueSize>::value_size(&r) == size_of::<&str>(), "value_size of a reference is not the reference's size");
    // Box<str>
    let len2 = s.len();
    let b: Box<str> = s.into_boxed_str();
    vassert!([C08], b.heap_size() == len2, "Box<str>::heap_size is not the string's length");
    compositional!(b);
    vassert!([C09], buffer_held(b.as_ptr(), len2, b.heap_size()), "Box<str>::heap_size differs from the bytes held from the allocator");
    std::mem::forget(b);
    vend!();
}

/// `cap` is concrete here: a buffer of pointers with a symbolic size is beyond
/// the engine (the propositional encoding ran out of memory); the length is symbolic.
pub fn ms_vec_box(cap: usize) {
    let len: usize = sym::any();
    sym::assume(len <= cap);
    let v: Vec<Box<u16>> = vec_of(cap, len, 4, |i| Box::new(i as u16));
    let want = cap * size_of::<Box<u16>>() + len * 2;
    vassert!([C08], v.heap_size() == want, "Vec<Box<u16>>::heap_size is not buffer + each element's heap size");
    compositional!(v);
    vblock!([C09], {
        let mut ok = buffer_held(v.as_ptr() as *const u8, v.capacity() * size_of::<Box<u16>>(), cap * size_of::<Box<u16>>());
        let mut i = 0;
        while i < 4 {
            if i < len {
                ok = ok && held(&*v[i] as *const u16 as *const u8, 2);
            }
            i += 1;
        }
        vcheck!(ok, "[C09 ] Vec<Box<u16>>: the buffers counted are not the ones held from the allocator");
    });
    // bulk helpers on (filtered, reversed, chained, mapped) iterators equal the element-wise sum
    vblock!([C08], {
        let mask: u8 = sym::any();
        let pred = |b: &&Box<u16>| (mask >> (***b as u8 & 7)) & 1 == 1;
        let mut expect = 0usize;
        let mut cnt = 0usize;
        let mut i = 0;
        while i < 4 {
            if i < len && (mask >> i) & 1 == 1 {
                expect += v[i].heap_size();
                cnt += 1;
            }
            i += 1;
        }
        vcheck!(<Box<u16>>::heap_size_sum_iter(|| v.iter().filter(pred)) == expect, "[C08 ] heap_size_sum_iter on a filtered iterator differs from the element-wise sum");
        vcheck!(<Box<u16>>::heap_size_sum_iter(|| v.iter().rev().filter(pred)) == expect, "[C08 ] heap_size_sum_iter on a reversed filtered iterator differs from the element-wise sum");
        vcheck!(<Box<u16>>::heap_size_sum_exact_size_iter(|| v.iter()) == len * 2, "[C08 ] heap_size_sum_exact_size_iter differs from the element-wise sum");
        vcheck!(<Box<u16>>::heap_size_sum_iter(|| v.iter().chain(v.iter())) == 2 * len * 2, "[C08 ] heap_size_sum_iter on a chained iterator differs from the element-wise sum");
        vcheck!(<Box<u16>>::value_size_sum_iter(v.iter().filter(pred)) == cnt * size_of::<Box<u16>>(), "[C08 ] value_size_sum_iter on a filtered iterator differs from the element-wise sum");
        vcheck!(<Box<u16>>::value_size_sum_exact_size_iter(v.iter()) == len * size_of::<Box<u16>>(), "[C08 ] value_size_sum_exact_size_iter differs from the element-wise sum");
        vcheck!(<u16>::heap_size_sum_iter(|| v.iter().map(|b| &**b)) == 0, "[C08 ] heap_size_sum_iter of a heap-less type is not 0");
    });
    std::mem::forget(v);
    vend!();
}

/// Vec<String> with concrete length 2 and symbolic inner capacities.
pub fn ms_vec_string() {
    let c0: usize = sym::any();
    let c1: usize = sym::any();
    sym::assume(c0 <= 3 && c1 <= 3);
    let cap: usize = 3;
    let mut v: Vec<String> = Vec::with_capacity(cap);
    v.push(String::with_capacity(c0));
    v.push(String::with_capacity(c1));
    vassert!([C08], v.heap_size() == cap * size_of::<String>() + c0 + c1, "Vec<String>::heap_size is not buffer + each string's capacity");
    compositional!(v);
    vassert!([C09], held(v.as_ptr() as *const u8, cap * size_of::<String>()) && buffer_held(v[0].as_ptr(), v[0].capacity(), c0) && buffer_held(v[1].as_ptr(), v[1].capacity(), c1), "Vec<String>: the buffers counted are not the ones held from the allocator");
    // slices, boxed slices
    let sl: &[String] = &v[..];
    vassert!([C08], HeapSize::heap_size(sl) == c0 + c1 && ValueSize::value_size(sl) == 2 * size_of::<String>(), "[String]: heap_size / value_size wrong");
    vassert!([C08], <[String]>::value_size_sum_iter([sl, sl].into_iter()) == 4 * size_of::<String>(), "value_size_sum_iter over unsized slices differs from the element-wise sum");
    let b: Box<[String]> = v.into_boxed_slice();
    vassert!([C08], b.heap_size() == 2 * size_of::<String>() + c0 + c1, "Box<[String]>::heap_size is not the slice's size plus the elements' heap");
    compositional!(b);
    vassert!([C09], held(b.as_ptr() as *const u8, 2 * size_of::<String>()), "Box<[String]>: buffer not exactly the slice");
    std::mem::forget(b);
    vend!();
}

// ---------------------------------------------------------------------------
// wrappers: Box, Option, Result, tuples, arrays, Wrapping, ranges
// ---------------------------------------------------------------------------
pub fn ms_wrappers() {
    let c0: usize = sym::any();
    let c1: usize = sym::any();
    sym::assume(c0 <= 4 && c1 <= 4);
    let some: bool = sym::any();
    let okv: bool = sym::any();
    let o: Option<String> = if some { Some(String::with_capacity(c0)) } else { None };
    vassert!([C08], o.heap_size() == if some { c0 } else { 0 }, "Option::heap_size is not its content's");
    compositional!(o);
    let r: Result<String, Box<u32>> = if okv { Ok(String::with_capacity(c1)) } else { Err(Box::new(7)) };
    vassert!([C08], r.heap_size() == if okv { c1 } else { 4 }, "Result::heap_size is not its content's");
    compositional!(r);
    let b: Box<String> = Box::new(String::with_capacity(c0));
    vassert!([C08], b.heap_size() == size_of::<String>() + c0, "Box<T>::heap_size is not T's mem_size");
    compositional!(b);
    vassert!([C09], held(&*b as *const String as *const u8, size_of::<String>()) && buffer_held(b.as_ptr(), b.capacity(), c0), "Box<String>: buffers not the ones held");
    let w = Wrapping(7u64);
    vassert!([C08], w.heap_size() == 0 && w.mem_size() == 8, "Wrapping<u64> size wrong");
    let t1 = (String::with_capacity(c0),);
    let t2 = (String::with_capacity(c0), Box::new(1u16));
    let t3 = (1u8, String::with_capacity(c1), Some(Box::new(2u64)));
    vassert!([C08], t1.heap_size() == c0 && t2.heap_size() == c0 + 2 && t3.heap_size() == c1 + 8, "tuple heap_size is not the sum of its parts");
    compositional!(t2);
    compositional!(t3);
    let rg = String::with_capacity(c0)..String::with_capacity(c1);
    vassert!([C08], rg.heap_size() == c0 + c1, "Range::heap_size is not start + end");
    compositional!(rg);
    let rf = String::with_capacity(c0)..;
    let rt = ..String::with_capacity(c1);
    let ri = String::with_capacity(c0)..=String::with_capacity(c1);
    let rti = ..=String::with_capacity(c1);
    vassert!([C08], rf.heap_size() == c0 && rt.heap_size() == c1 && ri.heap_size() == c0 + c1 && rti.heap_size() == c1 && (..).heap_size() == 0, "range heap_size is not the sum of its bounds");
    let a0: [String; 0] = [];
    let a1 = [String::with_capacity(c0)];
    let a2 = [String::with_capacity(c0), String::with_capacity(c1)];
    vassert!([C08], a0.heap_size() == 0 && a1.heap_size() == c0 && a2.heap_size() == c0 + c1, "array heap_size is not the sum of its elements");
    compositional!(a2);
    vassert!([C08], a2.value_size() == 2 * size_of::<String>(), "array value_size is not its size");
    std::mem::forget((o, r, b, t1, t2, t3, rg, rf, rt, ri, rti, a1, a2));
    vend!();
}

/// Tuples of arity 4..10 with unit-cost parts.
pub fn ms_tuples_wide() {
    let b = || Box::new(0u8);
    let t4 = (b(), b(), b(), b());
    let t5 = (b(), b(), b(), b(), b());
    let t6 = (b(), b(), b(), b(), b(), b());
    let t7 = (b(), b(), b(), b(), b(), b(), b());
    let t8 = (b(), b(), b(), b(), b(), b(), b(), b());
    let t9 = (b(), b(), b(), b(), b(), b(), b(), b(), b());
    let t10 = (b(), b(), b(), b(), b(), b(), b(), b(), b(), b());
    vassert!([C08], t4.heap_size() == 4 && t5.heap_size() == 5 && t6.heap_size() == 6 && t7.heap_size() == 7 && t8.heap_size() == 8 && t9.heap_size() == 9 && t10.heap_size() == 10, "heap_size of a wide tuple is not the sum of its parts");
    compositional!(t10);
    let v = vec![(b(), 1u8, b(), b()), (b(), 2u8, b(), b())];
    vassert!([C08], v.heap_size() == v.capacity() * size_of::<(Box<u8>, u8, Box<u8>, Box<u8>)>() + 6, "Vec of 4-tuples: bulk path differs from the element-wise sum");
    std::mem::forget((t4, t5, t6, t7, t8, t9, t10, v));
    vend!();
}

// ---------------------------------------------------------------------------
// the specialised bulk paths: Vec<[T; N]>, Vec<(A, B)>, Vec<Wrapping<T>>, Vec<Box<[T]>>
// ---------------------------------------------------------------------------
pub fn ms_vec_array<const N: usize>() {
    let m: usize = sym::any();
    sym::assume(m <= 3);
    let v: Vec<[Box<u16>; N]> = vec_of(3, m, 3, |i| std::array::from_fn(|j| Box::new((i + j) as u16)));
    vcover!(m == 3, "vec of arrays: three sections");
    vassert!([C08], v.heap_size() == 3 * size_of::<[Box<u16>; N]>() + m * N * 2, "Vec<[Box<u16>; N]>::heap_size (flattening bulk path) differs from the element-wise sum");
    vassert!([C08], <[Box<u16>; N]>::heap_size_sum_iter(|| v.iter()) == m * N * 2, "[T; N]::heap_size_sum_iter differs from the element-wise sum");
    vassert!([C08], <[Box<u16>; N]>::heap_size_sum_exact_size_iter(|| v.iter().rev()) == m * N * 2, "[T; N]::heap_size_sum_exact_size_iter on a reversed iterator differs from the element-wise sum");
    compositional!(v);
    std::mem::forget(v);
    vend!();
}

pub fn ms_vec_tuple() {
    let m: usize = sym::any();
    sym::assume(m <= 3);
    let c0: usize = sym::any();
    sym::assume(c0 <= 3);
    let v: Vec<(String, Option<Box<u32>>)> = vec_of(3, m, 3, |i| (String::with_capacity(c0), if i == 1 { None } else { Some(Box::new(i as u32)) }));
    let boxes = if m >= 3 { 2 } else if m >= 1 { 1 } else { 0 };
    vassert!([C08], v.heap_size() == 3 * size_of::<(String, Option<Box<u32>>)>() + m * c0 + boxes * 4, "Vec<(String, Option<Box<u32>>)>::heap_size (tuple bulk path) differs from the element-wise sum");
    let mask: u8 = sym::any();
    let mut expect = 0usize;
    let mut i = 0;
    while i < 3 {
        if i < m && (mask >> i) & 1 == 1 {
            expect += v[i].heap_size();
        }
        i += 1;
    }
    let base = v.as_ptr();
    let pred = |t: &&(String, Option<Box<u32>>)| {
        let idx = unsafe { (*t as *const (String, Option<Box<u32>>)).offset_from(base) } as usize;
        (mask >> idx) & 1 == 1
    };
    vassert!([C08], <(String, Option<Box<u32>>)>::heap_size_sum_iter(|| v.iter().filter(pred)) == expect, "tuple heap_size_sum_iter on a filtered iterator differs from the element-wise sum");
    let w: Vec<Wrapping<Box<u64>>> = vec_of(3, m, 3, |i| Wrapping(Box::new(i as u64)));
    vassert!([C08], w.heap_size() == 3 * 8 + m * 8, "Vec<Wrapping<Box<u64>>>::heap_size (Wrapping bulk path) differs from the element-wise sum");
    vassert!([C08], <Wrapping<Box<u64>>>::heap_size_sum_iter(|| w.iter().skip(1)) == if m > 0 { (m - 1) * 8 } else { 0 }, "Wrapping heap_size_sum_iter on a skipping iterator differs from the element-wise sum");
    let bs: Vec<Box<[u16]>> = vec_of(3, m, 3, |i| vec![0u16; i + 1].into_boxed_slice());
    let inner = if m == 0 { 0 } else if m == 1 { 2 } else if m == 2 { 6 } else { 12 };
    vassert!([C08], bs.heap_size() == 3 * size_of::<Box<[u16]>>() + inner, "Vec<Box<[u16]>>::heap_size (Box bulk path over unsized) differs from the element-wise sum");
    std::mem::forget((v, w, bs));
    vend!();
}

/// Generic "container = buffer + element-wise sum" check: for a Vec<T> built from
/// `mk`, heap_size and all four bulk helpers must equal the sum of the single
/// elements' heap_size / value_size (the single-element functions are checked
/// against explicit formulas in ms_wrappers). Catches a specialised bulk path
/// that disagrees with the element-wise definition for any wrapper T.
fn elementwise<T: MemSize>(v: &Vec<T>) {
    let mut hs = 0usize;
    let mut i = 0;
    while i < 2 {
        if i < v.len() {
            hs += v[i].heap_size();
        }
        i += 1;
    }
    vassert!([C08, C09], v.heap_size() == v.capacity() * size_of::<T>() + hs, "Vec<T>::heap_size differs from buffer + element-wise sum of T::heap_size (bulk path of a wrapper type)");
    vassert!([C08], T::heap_size_sum_iter(|| v.iter()) == hs && T::heap_size_sum_exact_size_iter(|| v.iter()) == hs, "heap_size_sum_iter / heap_size_sum_exact_size_iter differ from the element-wise sum");
    vassert!([C08], T::heap_size_sum_iter(|| v.iter().rev()) == hs && T::heap_size_sum_exact_size_iter(|| v.iter().rev()) == hs, "bulk helpers on a reversed iterator differ from the element-wise sum");
    vassert!([C08], T::value_size_sum_iter(v.iter()) == v.len() * size_of::<T>() && T::value_size_sum_exact_size_iter(v.iter()) == v.len() * size_of::<T>(), "value_size bulk helpers differ from the element-wise sum");
    let b: &[T] = &v[..];
    vassert!([C08, C09], HeapSize::heap_size(b) == hs, "[T]::heap_size differs from the element-wise sum");
}

/// Two-element vectors of every wrapper around String with different capacities
/// in every position (so that swapped / dropped / double-counted parts show).
pub fn ms_vec_wrapped(part: u8) {
    let c0: usize = sym::any();
    let c1: usize = sym::any();
    let c2: usize = sym::any();
    sym::assume(c0 <= 3 && c1 <= 3 && c2 <= 3);
    let s = |c: usize| String::with_capacity(c);
    match part {
        0 => {
            let v: Vec<Option<String>> = vec![Some(s(c0)), None];
            elementwise(&v);
            let w: Vec<Result<String, String>> = vec![Ok(s(c0)), Err(s(c1))];
            elementwise(&w);
            vassert!([C08, C09], w.heap_size() == 2 * size_of::<Result<String, String>>() + c0 + c1, "Vec<Result<String, String>> loses the Err payload's heap");
            std::mem::forget((v, w));
        }
        1 => {
            let v: Vec<std::ops::Range<String>> = vec![s(c0)..s(c1), s(c2)..s(c0)];
            elementwise(&v);
            vassert!([C08, C09], v.heap_size() == 2 * size_of::<std::ops::Range<String>>() + 2 * c0 + c1 + c2, "Vec<Range<String>> does not count every start and end once");
            let w: Vec<std::ops::RangeInclusive<String>> = vec![s(c0)..=s(c1), s(c2)..=s(c0)];
            elementwise(&w);
            std::mem::forget((v, w));
        }
        2 => {
            let v: Vec<(String, String)> = vec![(s(c0), s(c1)), (s(c2), s(c0))];
            elementwise(&v);
            let w: Vec<[String; 2]> = vec![[s(c0), s(c1)], [s(c2), s(c0)]];
            elementwise(&w);
            let x: Vec<Wrapping<String>> = Vec::new();
            std::mem::forget((v, w, x));
        }
        _ => {
            let v: Vec<Box<String>> = vec![Box::new(s(c0)), Box::new(s(c1))];
            elementwise(&v);
            let w: Vec<std::ops::RangeFrom<String>> = vec![s(c0).., s(c1)..];
            elementwise(&w);
            let x: Vec<std::ops::RangeTo<String>> = vec![..s(c0), ..s(c1)];
            elementwise(&x);
            let y: Vec<std::ops::RangeToInclusive<String>> = vec![..=s(c2), ..=s(c1)];
            elementwise(&y);
            std::mem::forget((v, w, x, y));
        }
    }
    vend!();
}

pub fn ms_binary_heap(cap: usize, len: usize) {
    let mut h: BinaryHeap<Box<u8>> = BinaryHeap::with_capacity(cap);
    let mut i = 0;
    while i < 3 {
        if i < len {
            h.push(Box::new(i as u8));
        }
        i += 1;
    }
    vassert!([C08], h.heap_size() == h.capacity() * size_of::<Box<u8>>() + len, "BinaryHeap::heap_size is not buffer + elements");
    compositional!(h);
    std::mem::forget(h);
    vend!();
}

/// CString, OsString, PathBuf, Box<CStr>, Box<Path>
pub fn ms_ffi() {
    let (cap, len) = sym_cap_len(4);
    let mut o = OsString::with_capacity(cap);
    let mut i = 0;
    while i < 4 {
        if i < len {
            o.push("a");
        }
        i += 1;
    }
    vcover!(o.capacity() > o.len(), "OsString: spare capacity");
    vassert!([C08], o.heap_size() == o.capacity(), "OsString::heap_size is not its capacity");
    compositional!(o);
    vassert!([C09], buffer_held(o.as_encoded_bytes().as_ptr(), o.capacity(), o.heap_size()), "OsString::heap_size differs from the bytes held from the allocator");
    let ocap = o.capacity();
    let p = PathBuf::from(o);
    vcover!(p.capacity() > p.as_os_str().len(), "PathBuf: spare capacity");
    compositional!(p);
    vassert!([C09], buffer_held(p.as_os_str().as_encoded_bytes().as_ptr(), p.capacity(), p.heap_size()), "PathBuf::heap_size differs from the bytes held from the allocator (spare capacity is not counted)");
    std::mem::forget(p);
    vend!();
}

pub fn ms_cstring() {
    let c = CString::new(vec![b'a', b'b']).unwrap();
    vassert!([C08], c.heap_size() == 3, "CString::heap_size is not its length including the terminator");
    compositional!(c);
    vassert!([C09], held(c.as_ptr() as *const u8, c.heap_size()), "CString::heap_size differs from the bytes held from the allocator");
    let b = c.into_boxed_c_str();
    vassert!([C08], b.heap_size() == 3, "Box<CStr>::heap_size is not the string's size");
    vassert!([C09], held(b.as_ptr() as *const u8, b.heap_size()), "Box<CStr>::heap_size differs from the bytes held");
    std::mem::forget(b);
    vend!();
}

pub fn ms_locks() {
    let c0: usize = sym::any();
    sym::assume(c0 <= 4);
    let m = std::sync::Mutex::new(String::with_capacity(c0));
    vassert!([C08], m.heap_size() == c0, "Mutex::heap_size is not its content's");
    compositional!(m);
    let r = std::sync::RwLock::new(String::with_capacity(c0));
    vassert!([C08], r.heap_size() == c0, "RwLock::heap_size is not its content's");
    compositional!(r);
    std::mem::forget((m, r));
    vend!();
}

/// Stack clause: the recursion depth of the size functions must not grow with
/// the element count. Run with a per-function recursion bound of 2 (runner:
/// `recbound=`); a recursion unwinding assertion failure means the depth grows.
pub fn ms_recursion<const N: usize>() {
    let m: usize = sym::any();
    sym::assume(m <= 3);
    let v: Vec<[String; N]> = vec_of(3, m, 3, |_| std::array::from_fn(|_| String::new()));
    vcover!(m == 3, "recursion probe: three sections");
    vassert!([C08], v.heap_size() == 3 * size_of::<[String; N]>(), "Vec<[String; N]>::heap_size wrong");
    std::mem::forget(v);
    vend!();
}

/// Native witness for a recursion-depth failure: the same computation on a
/// vector of `count` sections (dev profile: the stack is exhausted if the
/// recursion depth grows with the element count).
#[cfg(not(kani))]
pub fn ms_recursion_big<const N: usize>(count: usize) {
    let v: Vec<[String; N]> = (0..count).map(|_| std::array::from_fn(|_| String::new())).collect();
    let h = v.heap_size();
    println!("heap_size of {} sections = {}", count, h);
}
#[cfg(not(kani))]
pub fn dispatch_big(h: &str) -> bool {
    match h {
        "ms_recursion_0#big" => ms_recursion_big::<0>(20_000_000),
        "ms_recursion_1#big" => ms_recursion_big::<1>(5_000_000),
        "ms_recursion_2#big" => ms_recursion_big::<2>(3_000_000),
        _ => return false,
    }
    true
}

harnesses! {
    ms_vec_u16_push [7] => ms_vec_u16(0); //@ q=C08,C09 to=600 args=-Z,mem-predicates
    ms_vec_u16_shrink [7] => ms_vec_u16(1); //@ q=C09 t=C08 to=600 args=-Z,mem-predicates
    ms_vec_u16_reserve [7] => ms_vec_u16(2); //@ q=C09 t=C08 to=900 args=-Z,mem-predicates
    ms_vec_u16_truncate [7] => ms_vec_u16(3); //@ q=C09 t=C08 to=600 args=-Z,mem-predicates
    ms_string_push [7] => ms_string(0); //@ q=C08,C09 to=600 args=-Z,mem-predicates
    ms_string_shrink [7] => ms_string(1); //@ q=C09 to=600 args=-Z,mem-predicates
    ms_string_reserve [7] => ms_string(2); //@ q=C09 to=900 args=-Z,mem-predicates
    ms_vec_box_c3 [7] => ms_vec_box(3); //@ q=C08,C09 to=900 args=-Z,mem-predicates
    ms_vec_box_c4 [7] => ms_vec_box(4); //@ t=C08,C09 to=900 args=-Z,mem-predicates
    ms_vec_box_c1 [7] => ms_vec_box(1); //@ q=C08,C09 to=900 args=-Z,mem-predicates
    ms_vec_string_sym [7] => ms_vec_string(); //@ q=C08,C09 to=900 args=-Z,mem-predicates
    ms_wrappers_sym [7] => ms_wrappers(); //@ q=C08,C09 to=900 args=-Z,mem-predicates
    ms_tuples_wide_all [7] => ms_tuples_wide(); //@ q=C08 to=900
    ms_vec_array_0 [7] => ms_vec_array::<0>(); //@ q=C08 to=900
    ms_vec_array_1 [7] => ms_vec_array::<1>(); //@ q=C08 to=900
    ms_vec_array_2 [7] => ms_vec_array::<2>(); //@ q=C08 to=900
    ms_vec_array_3 [7] => ms_vec_array::<3>(); //@ t=C08 to=1200
    ms_vec_tuple_sym [7] => ms_vec_tuple(); //@ q=C08 to=1200
    ms_vec_wrapped_opt_res [7] => ms_vec_wrapped(0); //@ q=C08,C09 to=900
    ms_vec_wrapped_ranges [7] => ms_vec_wrapped(1); //@ q=C08,C09 to=900
    ms_vec_wrapped_tuple_array [7] => ms_vec_wrapped(2); //@ q=C08,C09 to=900
    ms_vec_wrapped_box_halfranges [7] => ms_vec_wrapped(3); //@ q=C08 t=C09 to=900
    ms_binary_heap_c3_l2 [7] => ms_binary_heap(3, 2); //@ q=C08 to=900
    ms_binary_heap_c1_l0 [7] => ms_binary_heap(1, 0); //@ q=C08 to=900
    ms_ffi_sym [7] => ms_ffi(); //@ q=C08,C09 to=900 args=-Z,mem-predicates
    ms_cstring_fixed [7] => ms_cstring(); //@ q=C08,C09 to=900 args=-Z,mem-predicates
    ms_locks_sym [7] => ms_locks(); //@ q=C08 to=900
    ms_recursion_0 [7] => ms_recursion::<0>(); //@ q=C08 to=900 recbound=2
    ms_recursion_1 [7] => ms_recursion::<1>(); //@ q=C08 to=900 recbound=2
    ms_recursion_2 [7] => ms_recursion::<2>(); //@ t=C08 to=900 recbound=2
}
