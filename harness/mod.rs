//! Verification harness for lru-mem, injected into a scratch copy of the crate
//! as a child module of the crate root (see /verif/DESIGN.md section 3.1):
//!
//!   #[cfg(any(kani, lru_mem_verif_replay))]
//!   #[path = "/verif/harness/mod.rs"] mod verif_harness;
//!
//! Under `cfg(kani)` the `#[kani::proof]` functions are decided by CBMC; under
//! `cfg(lru_mem_verif_replay)` the very same harness bodies run natively with
//! `sym::any()` reading the values recorded from a CBMC counterexample.
//!
//! Every assertion is tagged with the property ids it decides; a build with
//! `--cfg C03` emits only the assertions tagged C03 (`--cfg vp_all`: all).
#![allow(unused, static_mut_refs, clippy::all)]

use super::*;
use std::borrow::Borrow;
use std::hash::{BuildHasher, Hash, Hasher};
use std::mem::ManuallyDrop;

// ---------------------------------------------------------------------------
// symbolic values: Kani, or recorded bytes in the native replay
// ---------------------------------------------------------------------------
pub mod sym {
    #[cfg(kani)]
    pub fn any<T: kani::Arbitrary>() -> T {
        kani::any()
    }
    #[cfg(kani)]
    pub fn assume(c: bool) {
        kani::assume(c)
    }

    #[cfg(not(kani))]
    pub use self::replay::*;
    #[cfg(not(kani))]
    mod replay {
        use std::cell::RefCell;
        use std::collections::VecDeque;
        thread_local! {
            pub static VALS: RefCell<VecDeque<Vec<u8>>> = RefCell::new(VecDeque::new());
        }
        pub trait Sym: Sized {
            fn sym() -> Self;
        }
        thread_local! {
            /// search mode: values are generated on demand (boundary-biased pseudo-random) and recorded
            pub static SEARCH: RefCell<Option<u64>> = RefCell::new(None);
            pub static DRAWN: RefCell<Vec<Vec<u8>>> = RefCell::new(Vec::new());
            static HIST: RefCell<Vec<u64>> = RefCell::new(Vec::new());
        }
        pub struct AssumeViolated;
        fn rnd() -> u64 {
            SEARCH.with(|s| {
                let mut g = s.borrow_mut();
                let mut x = g.unwrap();
                x ^= x << 13;
                x ^= x >> 7;
                x ^= x << 17;
                *g = Some(x);
                x
            })
        }
        fn gen(n: usize) -> Vec<u8> {
            let r = rnd();
            let v: u64 = if n == 1 {
                match r % 4 { 0 => 0, 1 => 1, _ => (r >> 8) & 0xff }
            } else {
                let hist: Vec<u64> = HIST.with(|h| h.borrow().clone());
                let sum: u64 = hist.iter().fold(0u64, |a, b| a.wrapping_add(*b));
                let base = std::mem::size_of::<super::super::E>() as u64 + super::super::KEY_HEAP as u64;
                let delta = (r >> 16) % 4;
                match r % 12 {
                    0 => 0,
                    1 => (r >> 8) % 8,
                    2 | 3 => (r >> 8) % 300,
                    4 => (1u64 << 40) - 1 - (r >> 8) % 3,
                    5 => u64::MAX - (r >> 8) % 3,
                    6 => hist.last().copied().unwrap_or(0).wrapping_add(delta),
                    7 => hist.last().copied().unwrap_or(0).wrapping_sub(delta),
                    // sums of earlier values plus multiples of the constant entry overhead: exact fits
                    8 => sum.wrapping_add(base * ((r >> 24) % 5)).wrapping_add(delta),
                    9 => sum.wrapping_add(base * ((r >> 24) % 5)).wrapping_sub(delta),
                    10 => hist.get(((r >> 32) as usize) % hist.len().max(1)).copied().unwrap_or(7),
                    _ => (r >> 8) % (1 << 20),
                }
            };
            if n == 8 {
                HIST.with(|h| h.borrow_mut().push(v));
            }
            let b = v.to_le_bytes();
            b[..n.min(8)].to_vec()
        }
        pub fn start_search(seed: u64) {
            SEARCH.with(|s| *s.borrow_mut() = Some(seed | 1));
            DRAWN.with(|d| d.borrow_mut().clear());
            HIST.with(|h| h.borrow_mut().clear());
        }
        fn pop(n: usize) -> Vec<u8> {
            if SEARCH.with(|s| s.borrow().is_some()) {
                let b = gen(n);
                DRAWN.with(|d| d.borrow_mut().push(b.clone()));
                return b;
            }
            VALS.with(|v| {
                let b = v.borrow_mut().pop_front().unwrap_or_else(|| {
                    eprintln!("REPLAY-MISMATCH: ran out of recorded values");
                    std::process::exit(3)
                });
                if b.len() != n {
                    eprintln!("REPLAY-MISMATCH: width mismatch (recorded {} bytes, wanted {})", b.len(), n);
                    std::process::exit(3)
                }
                b
            })
        }
        impl Sym for u8 {
            fn sym() -> u8 {
                pop(1)[0]
            }
        }
        impl Sym for bool {
            fn sym() -> bool {
                pop(1)[0] != 0
            }
        }
        impl Sym for u16 {
            fn sym() -> u16 {
                u16::from_le_bytes(pop(2).try_into().unwrap())
            }
        }
        impl Sym for usize {
            fn sym() -> usize {
                usize::from_le_bytes(pop(8).try_into().unwrap())
            }
        }
        impl Sym for u64 {
            fn sym() -> u64 {
                u64::from_le_bytes(pop(8).try_into().unwrap())
            }
        }
        impl<T: Sym, const N: usize> Sym for [T; N] {
            fn sym() -> [T; N] {
                std::array::from_fn(|_| T::sym())
            }
        }
        pub fn any<T: Sym>() -> T {
            T::sym()
        }
        pub fn assume(c: bool) {
            if !c {
                if SEARCH.with(|s| s.borrow().is_some()) {
                    std::panic::panic_any(AssumeViolated);
                }
                eprintln!("REPLAY-MISMATCH: assumption violated (values do not belong to this harness)");
                std::process::exit(3)
            }
        }
        pub fn check(c: bool, msg: &'static str) {
            if !c {
                if SEARCH.with(|s| s.borrow().is_some()) {
                    // print the witness found by the search so that it can be stored and replayed
                    let vals = DRAWN.with(|d| d.borrow().clone());
                    let txt: Vec<String> = vals.iter().map(|v| format!("[{}]", v.iter().map(|b| b.to_string()).collect::<Vec<_>>().join(","))).collect();
                    eprintln!("SEARCH-WITNESS [{}]", txt.join(","));
                }
                eprintln!("VASSERT-FAILED {}", msg);
                std::process::exit(101)
            }
        }
        pub fn load(vals: Vec<Vec<u8>>) {
            VALS.with(|v| *v.borrow_mut() = vals.into());
        }
    }
}

/// `vassert!([C01, C02], cond, "text")`: assertion emitted only in builds for
/// one of the listed properties (or `vp_all`).
macro_rules! vassert {
    ([$($tag:ident),+], $cond:expr, $msg:literal) => {
        #[cfg(all(kani, any(vp_all $(, $tag)+)))]
        {
            kani::assert($cond, concat!("[" $(, stringify!($tag), " ")+, "] ", $msg));
        }
        #[cfg(all(not(kani), any(vp_all $(, $tag)+)))]
        {
            crate::verif_harness::sym::check($cond, concat!("[" $(, stringify!($tag), " ")+, "] ", $msg));
        }
    };
}
/// Untagged-by-cfg assertion (used inside `vblock!`s; the message carries the tags).
macro_rules! vcheck {
    ($cond:expr, $msg:literal $(,)?) => {{
        #[cfg(kani)]
        {
            kani::assert($cond, $msg);
        }
        #[cfg(not(kani))]
        {
            crate::verif_harness::sym::check($cond, $msg);
        }
    }};
}
/// Code that only exists in builds for the listed properties.
macro_rules! vblock {
    ([$($tag:ident),+], $body:block) => {
        #[cfg(any(vp_all $(, $tag)+))]
        $body
    };
}
/// Reachability witness (vacuity guard); a no-op in the native replay.
/// `vcover!(cond, "text")`, or `vcover!(if applicable, cond, "text")` when the
/// goal only makes sense for some harness shapes (`applicable` is concrete;
/// the goal is then reported UNREACHABLE instead of UNSATISFIABLE).
macro_rules! vcover {
    (if $app:expr, $cond:expr, $msg:literal) => {
        #[cfg(all(kani, not(vp_nocover)))]
        {
            if $app {
                kani::cover!($cond, $msg);
            }
        }
    };
    ($cond:expr, $msg:literal) => {
        #[cfg(all(kani, not(vp_nocover)))]
        {
            kani::cover!($cond, $msg);
        }
    };
}
/// Mandatory witness that the end of the harness is reachable (the runner
/// requires it to be SATISFIED in every harness).
macro_rules! vend {
    () => {
        #[cfg(kani)]
        {
            kani::cover!(true, "END-OF-HARNESS reached");
        }
    };
}

// ---------------------------------------------------------------------------
// instantiation: Key, Val, TabBuild
// ---------------------------------------------------------------------------

/// Size of the key universe (keys 0..UNIV).
pub const UNIV: u8 = 5;
/// Maximal number of entries a harness builds directly.
pub const NMAX: usize = 7;
/// Heap bytes every key claims (so that the key's share of entry_size is visible).
pub const KEY_HEAP: usize = 3;

pub static mut DROPS: [u8; 48] = [0; 48];
pub static mut HASHES: usize = 0;

#[inline(always)]
fn ghost_drop(id: u8) {
    #[cfg(any(vp_all, C06, C12, C14, C15, C17))]
    unsafe {
        vcheck!(DROPS[id as usize] == 0, "[C06 C12 C17 ] a key or value was dropped twice");
        DROPS[id as usize] += 1;
    }
}
pub fn drops(id: u8) -> u8 {
    unsafe { DROPS[id as usize] }
}

/// One-byte key; `id` is ghost identity (not part of Eq/Hash).
pub struct Key {
    pub k: u8,
    pub id: u8,
}
impl Key {
    pub fn new(k: u8, id: u8) -> Key {
        Key { k, id }
    }
}
impl PartialEq for Key {
    fn eq(&self, o: &Key) -> bool {
        self.k == o.k
    }
}
impl Eq for Key {}
impl Hash for Key {
    fn hash<H: Hasher>(&self, state: &mut H) {
        state.write_u8(self.k)
    }
}
impl Borrow<u8> for Key {
    fn borrow(&self) -> &u8 {
        &self.k
    }
}
impl Clone for Key {
    fn clone(&self) -> Key {
        Key { k: self.k, id: self.id + 16 }
    }
}
impl Drop for Key {
    fn drop(&mut self) {
        ghost_drop(self.id)
    }
}
impl HeapSize for Key {
    fn heap_size(&self) -> usize {
        KEY_HEAP
    }
}

/// Value with a user-defined (symbolic) heap size; `id` is ghost identity.
pub struct Val {
    pub heap: usize,
    pub id: u8,
}
impl Clone for Val {
    /// Like `String::clone`, which drops spare capacity, the copy may report a
    /// smaller size than the original (the lowest bit of `heap` is dropped).
    fn clone(&self) -> Val {
        Val { heap: self.heap & !1, id: self.id + 16 }
    }
}
impl Drop for Val {
    fn drop(&mut self) {
        ghost_drop(self.id)
    }
}
impl HeapSize for Val {
    fn heap_size(&self) -> usize {
        self.heap
    }
}

#[derive(Clone, Copy)]
pub struct TabHasher {
    tab: [u8; 8],
    out: u64,
}
impl Hasher for TabHasher {
    fn finish(&self) -> u64 {
        self.out
    }
    fn write(&mut self, bytes: &[u8]) {
        self.out = self.tab[(bytes[0] & 7) as usize] as u64;
    }
    fn write_u8(&mut self, b: u8) {
        self.out = self.tab[(b & 7) as usize] as u64;
    }
}
/// Hasher given by a table: key i hashes to `tab[i]`.
#[derive(Clone, Copy)]
pub struct TabBuild {
    pub tab: [u8; 8],
}
impl BuildHasher for TabBuild {
    type Hasher = TabHasher;
    fn build_hasher(&self) -> TabHasher {
        #[cfg(any(vp_all, C20))]
        unsafe {
            HASHES += 1;
        }
        TabHasher { tab: self.tab, out: 0 }
    }
}

pub type C = LruCache<Key, Val, TabBuild>;
pub type E = Entry<Key, Val>;

/// `entry_size` of a (key, value) pair whose value claims `heap` bytes,
/// computed by the crate's own public `entry_size`.
pub fn esz(heap: usize) -> usize {
    let k = ManuallyDrop::new(Key::new(0, 0));
    let v = ManuallyDrop::new(Val { heap, id: 0 });
    entry_size::<Key, Val>(&k, &v)
}
/// Constant part of an entry's size.
pub const ES0: usize = std::mem::size_of::<E>() + KEY_HEAP;

// ids: original entry i (i < 7) has value id i and key id 8 + i; the pair handed to
// an operation has value id NEW_VID = 7 and key id NEW_KID = 15; clones add 16.
pub const NEW_VID: u8 = 7;
pub const NEW_KID: u8 = 15;

// ---------------------------------------------------------------------------
// hashers: the equality patterns of `tab`
// ---------------------------------------------------------------------------

/// The 15 set partitions of 4 keys as restricted-growth strings, plus key 4
/// sharing key 0's class or alone (index 15.. not used): every hasher on the
/// 4-key universe is one of these up to renaming of hash values.
pub const PARTITIONS: [[u8; 4]; 15] = [
    [0, 0, 0, 0],
    [0, 0, 0, 1],
    [0, 0, 1, 0],
    [0, 0, 1, 1],
    [0, 0, 1, 2],
    [0, 1, 0, 0],
    [0, 1, 0, 1],
    [0, 1, 0, 2],
    [0, 1, 1, 0],
    [0, 1, 1, 1],
    [0, 1, 1, 2],
    [0, 1, 2, 0],
    [0, 1, 2, 1],
    [0, 1, 2, 2],
    [0, 1, 2, 3],
];
/// Hash pattern selected by VERIF_SEED (the runner exports VERIF_TAB = seed mod 15
/// at compile time); the `_seedtab` harnesses use it in addition to the fixed patterns.
pub const SEED_TAB: usize = match option_env!("VERIF_TAB") {
    Some(s) => parse_usize(s) % 15,
    None => 10,
};
const fn parse_usize(s: &str) -> usize {
    let b = s.as_bytes();
    let mut i = 0;
    let mut v = 0usize;
    while i < b.len() {
        if b[i] >= b'0' && b[i] <= b'9' {
            v = v * 10 + (b[i] - b'0') as usize;
        }
        i += 1;
    }
    v
}
pub fn tab_of(p: usize) -> [u8; 8] {
    let q = PARTITIONS[p];
    [q[0], q[1], q[2], q[3], q[0], q[1], q[2], q[3]]
}
/// Symbolic hasher: any hash value per key (only the equality pattern matters
/// to the table model, which compares the stored byte).
pub fn sym_tab() -> [u8; 8] {
    let t: [u8; 8] = sym::any();
    let mut i = 0;
    while i < 8 {
        sym::assume(t[i] < 8);
        i += 1;
    }
    t
}

// ---------------------------------------------------------------------------
// model (stub) controls; they only exist when built against the table model
// ---------------------------------------------------------------------------
#[cfg(kani)]
pub mod tm {
    pub use hashbrown::model::*;
    pub fn expect_no_grow(on: bool) {
        unsafe { EXPECT_NO_GROW = on; }
    }
    pub fn tables_allocated() -> usize {
        unsafe { TABLES_ALLOCATED }
    }
    pub fn last_request() -> usize {
        unsafe { LAST_REQUEST }
    }
    pub fn insert_grows() -> usize {
        unsafe { INSERT_GROWS }
    }
    pub fn fail_next_alloc() {
        unsafe { FAIL_NEXT_ALLOC = true; }
    }
    pub fn clear_fail() {
        unsafe { FAIL_NEXT_ALLOC = false; }
    }
    /// Concrete choices (a scripted table behaviour: tombstone bits / target slots in order).
    pub fn script(choices: &[u8], placement: bool, tombstones: bool) {
        let mut ch = [0u8; 16];
        let mut i = 0;
        while i < choices.len() && i < 16 {
            ch[i] = choices[i];
            i += 1;
        }
        unsafe {
            CHOICES = ch;
            CHOICE_IDX = 0;
            NONDET_PLACEMENT = placement;
            NONDET_TOMBSTONES = tombstones;
        }
    }
    /// Draws the model's nondeterministic choices (placement / tombstones).
    pub fn nondet(placement: bool, tombstones: bool) {
        let ch: [u8; 16] = super::sym::any();
        unsafe {
            CHOICES = ch;
            CHOICE_IDX = 0;
            NONDET_PLACEMENT = placement;
            NONDET_TOMBSTONES = tombstones;
        }
    }
}
/// Native replay against the real hashbrown: the controls are no-ops, the
/// recorded choice bytes are consumed and ignored.
#[cfg(not(kani))]
pub mod tm {
    pub const MODEL: bool = false;
    pub fn expect_no_grow(_on: bool) {}
    pub fn tables_allocated() -> usize { 0 }
    pub fn last_request() -> usize { 0 }
    pub fn insert_grows() -> usize { 0 }
    /// Native replay: the replay binary's allocator refuses the next allocation
    /// (hashbrown's fallible table allocation then reports AllocError).
    pub static FAIL_HOOK: std::sync::OnceLock<fn(bool)> = std::sync::OnceLock::new();
    pub fn fail_next_alloc() {
        if let Some(f) = FAIL_HOOK.get() {
            f(true)
        }
    }
    pub fn clear_fail() {
        if let Some(f) = FAIL_HOOK.get() {
            f(false)
        }
    }
    pub fn nondet(_placement: bool, _tombstones: bool) {
        let _ch: [u8; 16] = super::sym::any();
    }
    pub fn script(_choices: &[u8], _placement: bool, _tombstones: bool) {}
}
/// True when running on the table model (ghost facts about table allocations
/// are only asserted then).
pub const ON_MODEL: bool = cfg!(kani);

// ---------------------------------------------------------------------------
// state construction
// ---------------------------------------------------------------------------

/// A cache with entries 0..n-1 in LRU -> MRU order (key i, value id i, heap
/// `heaps[i]`), built directly the way `clone()` builds one.
pub fn build(n: usize, heaps: &[usize; NMAX], max: usize, tab: [u8; 8], cap: usize) -> C {
    let mut c: C = LruCache::with_capacity_and_hasher(max, cap, TabBuild { tab });
    let mut i = 0;
    while i < n {
        let e = UnhingedEntry::new(Key::new(i as u8, 8 + i as u8), Val { heap: heaps[i], id: i as u8 });
        let entry = Entry::new(e, c.seal, c.seal.get().next);
        c.current_size += entry.size;
        raw_link(&mut c, entry);
        i += 1;
    }
    unsafe {
        HASHES = 0;
    }
    c
}

/// Puts an entry into the table and links it in as most-recently-used (the two
/// primitive steps every insertion path of the crate is made of).
pub fn raw_link<V2>(c: &mut LruCache<Key, V2, TabBuild>, entry: Entry<Key, V2>) {
    match c.insert_into_table(entry) {
        Ok(ptr) => c.set_head(ptr),
        Err(e) => {
            std::mem::forget(e);
            sym::assume(false); // the harness sized the table for its entries
        }
    }
}

/// Symbolic contents of a valid state with `n` entries.
pub struct St {
    pub n: usize,
    pub heaps: [usize; NMAX],
    pub sz: [usize; NMAX],
    pub sum: usize,
    pub max: usize,
}

/// Draws heaps and a limit such that the state is valid (assumption A1: every
/// entry size and their sum are representable; quick tier: heaps < 2^hb).
pub fn sym_state(n: usize, hb: u32) -> St {
    let heaps: [usize; NMAX] = sym::any();
    let max: usize = sym::any();
    let mut sz = [0usize; NMAX];
    let mut sum: usize = 0;
    let mut i = 0;
    while i < n {
        if hb < 64 {
            sym::assume(heaps[i] < (1usize << hb));
        } else {
            sym::assume(heaps[i] <= usize::MAX - ES0);
        }
        sz[i] = esz(heaps[i]);
        match sum.checked_add(sz[i]) {
            Some(s) => sum = s,
            None => sym::assume(false),
        }
        i += 1;
    }
    sym::assume(sum <= max);
    St { n, heaps, sz, sum, max }
}

pub fn sym_key(bound: u8) -> u8 {
    let k: u8 = sym::any();
    sym::assume(k < bound);
    k
}

// ---------------------------------------------------------------------------
// representation invariant and fingerprint (read through the private fields)
// ---------------------------------------------------------------------------

/// Inv I1-I4 (DESIGN.md 3.3). `bound` = maximal number of nodes walked.
pub fn inv(c: &C, bound: usize) {
    inv_opt(c, bound, true)
}
/// Without I3 (for clones of values whose copy reports a different size: the
/// recorded sizes are copied from the source by design).
pub fn inv_nosize(c: &C, bound: usize) {
    inv_opt(c, bound, false)
}
pub fn inv_opt(c: &C, bound: usize, sizes: bool) {
    vblock!([C01, C02, C03, C04, C05, C06, C07, C11, C12, C13, C14, C15, C17], {
        let mut cnt = 0usize;
        let mut sum = 0usize;
        let mut p = c.seal.get().prev; // LRU
        while p != c.seal {
            if p.is_null() {
                vassert!([C04, C05, C06, C07, C12, C14, C17, C19], false, "I1: a link of the recency list is null");
                break;
            }
            if cnt >= bound {
                vassert!([C04, C05, C06, C07, C12, C14, C17], false, "I1: list longer than len() allows");
                break;
            }
            let e = p.get();
            let k = unsafe { e.key() };
            let v = unsafe { e.value() };
            if sizes {
                vassert!([C01, C02, C03, C11], e.size == entry_size(k, v), "I3: recorded (accounted) size of an entry differs from entry_size(key, value)");
            }
            vblock!([C04, C07, C14, C17], {
                let found = c.peek_entry(&k.k);
                vcheck!(
                    match found {
                        Some((fk, _)) => std::ptr::eq(fk, k),
                        None => false,
                    },
                    "[C04 C07 C14 C17 ] I2: a traversed entry is not the entry a lookup of its key finds",
                );
            });
            vassert!([C05, C06, C07, C12, C14, C17], !e.prev.is_null() && !e.next.is_null() && e.prev.get().next == p && e.next.get().prev == p, "I1: forward and backward links do not mirror");
            sum = sum.wrapping_add(e.size);
            cnt += 1;
            p = e.prev;
        }
        vassert!([C05, C06, C07, C12, C14, C17], c.seal.get().next.get().prev == c.seal && c.seal.get().prev.get().next == c.seal, "I1: seal links do not mirror");
        vassert!([C02, C04, C05, C06, C07, C12, C14, C17], cnt == c.len(), "I1: number of linked entries differs from len()");
        vassert!([C01, C02, C03], sum == c.current_size(), "I4: current_size differs from the sum of recorded sizes");
        vassert!([C01], c.current_size() <= c.max_size(), "I4: current_size exceeds max_size");
        vassert!([C02], (c.len() == 0) == (c.current_size() == 0) && c.is_empty() == (c.len() == 0), "current_size is 0 exactly when the cache is empty");
    });
}

/// Structural fingerprint: addresses, links, recorded sizes, keys, ids, the
/// seal's links and the totals.
#[derive(Clone, Copy)]
pub struct Fp {
    pub nodes: [(*const E, *const E, *const E, usize, u8, u8, u8, usize); NMAX + 1],
    pub n: usize,
    pub bound: usize,
    pub seal: (*const E, *const E, *const E),
    pub cur: usize,
    pub max: usize,
    pub cap: usize,
    pub len: usize,
    /// the cache struct itself, word by word (catches writes to fields the harness does not know)
    pub raw: [u64; 10],
    #[cfg(kani)]
    pub words: (*const u8, u64, u8, u8, u8, u8, u8),
}
impl Fp {
    /// Field-wise comparison without slice-equality loops.
    pub fn same(&self, o: &Fp) -> bool {
        let mut ok = self.n == o.n && self.seal == o.seal && self.cur == o.cur && self.max == o.max && self.cap == o.cap && self.len == o.len;
        macro_rules! w { ($i:expr) => { ok = ok && self.raw[$i] == o.raw[$i]; }; }
        w!(0); w!(1); w!(2); w!(3); w!(4); w!(5); w!(6); w!(7); w!(8); w!(9);
        #[cfg(kani)]
        {
            ok = ok && self.words == o.words;
        }
        let mut i = 0;
        while i < self.bound {
            if i < self.n {
                ok = ok && self.nodes[i] == o.nodes[i];
            }
            i += 1;
        }
        ok
    }
}
/// The bytes of the `LruCache` value itself as 64-bit words (at most 10).
pub fn raw_words(c: &C) -> [u64; 10] {
    let mut w = [0u64; 10];
    let n = std::mem::size_of::<C>() / 8;
    let p = c as *const C as *const u64;
    macro_rules! rd { ($i:expr) => { if $i < n { w[$i] = unsafe { std::ptr::read_unaligned(p.add($i)) }; } }; }
    rd!(0); rd!(1); rd!(2); rd!(3); rd!(4); rd!(5); rd!(6); rd!(7); rd!(8); rd!(9);
    w
}
pub fn fp(c: &C, bound: usize) -> Fp {
    let a = |p: EntryPtr<Key, Val>| if p.is_null() { std::ptr::null() } else { p.get() as *const E };
    let mut f = Fp {
        nodes: [(std::ptr::null(), std::ptr::null(), std::ptr::null(), 0, 0, 0, 0, 0); NMAX + 1],
        bound,
        n: 0,
        seal: (a(c.seal), a(c.seal.get().prev), a(c.seal.get().next)),
        cur: c.current_size,
        max: c.max_size,
        cap: c.capacity(),
        len: c.len(),
        raw: raw_words(c),
        #[cfg(kani)]
        words: c.table.model_words(),
    };
    let mut p = c.seal.get().prev;
    while p != c.seal && f.n < bound {
        if p.is_null() {
            // a null link: recorded as such (the comparison with an intact fingerprint then differs)
            f.nodes[f.n] = (std::ptr::null(), std::ptr::null(), std::ptr::null(), usize::MAX, 0xff, 0xff, 0xff, usize::MAX);
            f.n += 1;
            break;
        }
        let e = p.get();
        let k = unsafe { e.key() };
        let v = unsafe { e.value() };
        f.nodes[f.n] = (a(p), a(e.prev), a(e.next), e.size, k.k, k.id, v.id, v.heap);
        f.n += 1;
        p = e.prev;
    }
    f
}

// ---------------------------------------------------------------------------
// expectation after one step from a built state
// ---------------------------------------------------------------------------

#[derive(Clone, Copy)]
pub struct Ent {
    pub k: u8,
    pub kid: u8,
    pub vid: u8,
    pub heap: usize,
}

/// Expected state after one operation on `build(n, ..)`: the original entries
/// for which `alive[i]` holds, in their original order, followed by `tail`
/// (the inserted or promoted entry) as most-recently-used.
pub struct Exp {
    pub alive: [bool; NMAX],
    pub tail: Option<Ent>,
    pub max: usize,
}

impl Exp {
    pub fn unchanged(st: &St) -> Exp {
        let mut alive = [false; NMAX];
        let mut i = 0;
        while i < st.n {
            alive[i] = true;
            i += 1;
        }
        Exp { alive, tail: None, max: st.max }
    }
    pub fn count(&self, st: &St) -> usize {
        let mut c = 0;
        let mut i = 0;
        while i < st.n {
            if self.alive[i] {
                c += 1;
            }
            i += 1;
        }
        if self.tail.is_some() {
            c += 1;
        }
        c
    }
    pub fn total(&self, st: &St) -> usize {
        let mut t = 0usize;
        let mut i = 0;
        while i < st.n {
            if self.alive[i] {
                t += st.sz[i];
            }
            i += 1;
        }
        if let Some(e) = self.tail {
            t += esz(e.heap);
        }
        t
    }
}

/// Which groups of post-state assertions an operation wants.
#[derive(Clone, Copy)]
pub struct Want {
    /// the operation may evict: exact membership belongs to C03, otherwise to C04
    pub evicting: bool,
}

/// Compares the cache with the expectation, property by property.
pub fn check_state(c: &C, st: &St, exp: &Exp, want: Want) {
    let n = st.n;
    // ---- C01: the bound
    vassert!([C01], c.current_size() <= c.max_size(), "current_size() exceeds max_size() after the operation");
    vassert!([C01, C10, C11, C13], c.max_size() == exp.max, "max_size() changed unexpectedly");

    // ---- C02: accounting against the contents actually held
    vblock!([C02], {
        let mut sum = 0usize;
        let mut cnt = 0usize;
        let mut it = c.iter();
        let mut j = 0;
        while j < n + 1 {
            if let Some((k, v)) = it.next() {
                sum = sum.wrapping_add(entry_size(k, v));
                cnt += 1;
            }
            j += 1;
        }
        vcheck!(it.next().is_none(), "[C02 ] iteration yields more entries than the pre-state plus one");
        vcheck!(c.len() == cnt, "[C02 ] len() differs from the number of entries held");
        vcheck!(c.current_size() == sum, "[C02 ] current_size() differs from the sum of entry_size over the contents");
        vcheck!((c.current_size() == 0) == (cnt == 0) && c.is_empty() == (cnt == 0), "[C02 ] current_size() is 0 / is_empty() exactly when the cache is empty");
    });
    // expected totals (the per-operation delta of the reference model)
    vassert!([C02, C03, C10, C11, C15], c.len() == exp.count(st), "len() differs from the reference model");
    vassert!([C02, C10, C11, C15], c.current_size() == exp.total(st), "current_size() differs from the reference model (delta of the operation)");

    // ---- membership and values through lookups, every key of the universe
    vblock!([C03, C04, C10, C11, C15], {
        // universe of this harness: keys 0..n-1 are present before the step, key n is absent
        let mut k = 0u8;
        while (k as usize) < n + 1 {
            let want_ent: Option<Ent> = match exp.tail {
                Some(e) if e.k == k => Some(e),
                _ => {
                    if (k as usize) < n && exp.alive[k as usize] {
                        Some(Ent { k, kid: 8 + k, vid: k, heap: st.heaps[k as usize] })
                    } else {
                        None
                    }
                }
            };
            let got = c.peek_entry(&k);
            match (got, want_ent) {
                (Some((gk, gv)), Some(w)) => {
                    vassert!([C04, C10, C11], gk.k == k && gv.id == w.vid && gv.heap == w.heap, "lookup returns a different value than the one most recently stored for the key");
                }
                (None, None) => {}
                (Some((gk, gv)), None) => {
                    // present although the reference removed/evicted it
                    if want.evicting {
                        vassert!([C03], false, "an entry that had to be evicted is still present");
                        // C04: a present key must still map to the value last stored for it
                        vassert!([C04], (k as usize) < n && gk.k == k && gv.id == k, "lookup returns a value that was never stored for this key");
                    } else {
                        vassert!([C04, C10, C11, C15], false, "a key that was removed (or never stored) is found");
                    }
                }
                (None, Some(_)) => {
                    if want.evicting {
                        vassert!([C03, C11], false, "an entry left the cache although no room was needed for it (or the new entry was evicted)");
                    } else {
                        vassert!([C03, C04, C10, C11, C15], false, "an entry is missing although nothing asked for its removal");
                    }
                }
            }
            vassert!([C04], c.contains(&k) == got.is_some() && c.peek(&k).is_some() == got.is_some(), "contains/peek/peek_entry disagree");
            k += 1;
        }
    });

    // ---- C05: order (relative order of the remaining originals, tail last), both directions
    vblock!([C05], {
        let mut it = c.iter();
        let mut last: i32 = -1;
        let mut seen_tail = false;
        let mut j = 0;
        while j < n + 1 {
            if let Some((k, _)) = it.next() {
                vcheck!(!seen_tail, "[C05 ] an entry follows the entry that must be most-recently-used");
                match exp.tail {
                    Some(e) if e.k == k.k => {
                        seen_tail = true;
                    }
                    _ => {
                        vcheck!((k.k as i32) > last, "[C05 ] relative order of untouched entries changed");
                        last = k.k as i32;
                    }
                }
            }
            j += 1;
        }
        // reverse traversal mirrors
        let mut itb = c.iter();
        let mut lastb: i32 = 100;
        let mut first = true;
        let mut j = 0;
        while j < n + 1 {
            if let Some((k, _)) = itb.next_back() {
                match exp.tail {
                    Some(e) if e.k == k.k => {
                        vcheck!(first, "[C05 ] the promoted/new entry is not the most-recently-used one");
                    }
                    _ => {
                        vcheck!((k.k as i32) < lastb, "[C05 ] relative order of untouched entries changed (reverse traversal)");
                        lastb = k.k as i32;
                    }
                }
                first = false;
            }
            j += 1;
        }
        // peek_lru / peek_mru are the two ends of the traversal
        let lru = c.iter().next().map(|(k, _)| k.k);
        let mru = c.iter().next_back().map(|(k, _)| k.k);
        vcheck!(c.peek_lru().map(|(k, _)| k.k) == lru, "[C05 ] peek_lru() is not the first entry of the traversal");
        vcheck!(c.peek_mru().map(|(k, _)| k.k) == mru, "[C05 ] peek_mru() is not the last entry of the traversal");
        if let Some(e) = exp.tail {
            vcheck!(mru == Some(e.k), "[C05 ] the accessed entry did not become most-recently-used");
        }
    });
}

/// "Drain probe" (C02): removes entries one by one and checks that
/// current_size drops by exactly entry_size each time and ends at 0 - exposes
/// a recorded per-entry size that drifted from the total.
pub fn drain_probe(c: &mut C, bound: usize) {
    vblock!([C02], {
        // quick tier: probe the two oldest entries; `--cfg vp_full_probe` (thorough tier): all of them
        let steps = if cfg!(vp_full_probe) { bound } else if bound < 2 { bound } else { 2 };
        let mut j = 0;
        while j < steps {
            let before = c.current_size();
            match c.remove_lru() {
                Some((k, v)) => {
                    let s = entry_size(&k, &v);
                    vcheck!(before >= s && c.current_size() == before - s, "[C02 ] removing an entry does not lower current_size by its entry_size");
                    drop(k);
                    drop(v);
                }
                None => {}
            }
            j += 1;
        }
        if steps == bound {
            vcheck!(c.len() == 0 && c.current_size() == 0, "[C02 ] current_size is not 0 after removing every entry");
        }
    });
}

/// Final drop accounting (C06): the keys and values of the n original
/// entries and the `extra` ids must each have been dropped exactly once when
/// everything is gone (values handed back were dropped by the harness).
pub fn check_drops(n: usize, extra: &[u8]) {
    vblock!([C06, C12, C14, C15], {
        let mut i = 0;
        while i < n {
            vcheck!(drops(i as u8) == 1 && drops(8 + i as u8) == 1, "[C06 C12 C14 C15 ] a key or value was neither dropped nor handed back exactly once (leaked or dropped twice)");
            i += 1;
        }
        let mut i = 0;
        while i < extra.len() {
            vcheck!(drops(extra[i]) == 1, "[C06 C12 C14 C15 ] a key or value passed to the operation was neither dropped nor handed back exactly once");
            i += 1;
        }
    });
}

/// Declares the proof harnesses of a module: `name [unwind] => call; //@ registry`
/// (the `//@` annotation is read by /verif/lib/runner.py: q= properties that run
/// the harness in the quick tier, t= additionally in the thorough tier, to= timeout).
macro_rules! harnesses {
    ($( $name:ident [$u:literal] => $body:expr; )*) => {
        $(
            #[cfg(kani)]
            #[kani::proof]
            #[kani::unwind($u)]
            fn $name() { $body }
        )*
        #[cfg(not(kani))]
        pub fn dispatch(h: &str) -> bool {
            match h {
                $( stringify!($name) => { $body; true } )*
                _ => false
            }
        }
    };
}

pub mod ops;
pub mod iters;
pub mod capacity;
pub mod memsize;
pub mod hashers;

/// Native witness search (used only when CBMC has found a counterexample but the trace-producing
/// run does not fit into memory): boundary-biased pseudo-random inputs are fed to the same harness
/// until one of its assertions fails; iterations whose inputs violate an assumption are skipped.
#[cfg(not(kani))]
pub fn search(harness: &str, iters: u64, seed: u64) -> bool {
    std::panic::set_hook(Box::new(|_| {}));
    let mut i = 0;
    while i < iters {
        sym::start_search(seed.wrapping_mul(0x9E37_79B9_7F4A_7C15).wrapping_add(i.wrapping_mul(0xD1B5_4A32_D192_ED03)));
        // ghost state is per iteration
        unsafe {
            DROPS = [0; 48];
            HASHES = 0;
        }
        ops::reset_ghost();
        let h = harness.to_string();
        let r = std::panic::catch_unwind(move || {
            ops::dispatch(&h) || iters::dispatch(&h) || capacity::dispatch(&h) || memsize::dispatch(&h) || hashers::dispatch(&h)
        });
        match r {
            Ok(false) => return false,
            Ok(true) => {}
            Err(e) => {
                if e.downcast_ref::<sym::AssumeViolated>().is_none() {
                    // a genuine panic inside the crate: report with the inputs drawn so far
                    let vals = sym::DRAWN.with(|d| d.borrow().clone());
                    let txt: Vec<String> = vals.iter().map(|v| format!("[{}]", v.iter().map(|b| b.to_string()).collect::<Vec<_>>().join(","))).collect();
                    eprintln!("SEARCH-WITNESS [{}]", txt.join(","));
                    eprintln!("SEARCH-PANIC the harness panicked (not an assumption)");
                    std::process::exit(102);
                }
            }
        }
        i += 1;
    }
    true
}

#[cfg(not(kani))]
pub fn replay(harness: &str, vals: Vec<Vec<u8>>) -> bool {
    sym::load(vals);
    ops::dispatch(harness) || iters::dispatch(harness) || capacity::dispatch(harness) || memsize::dispatch(harness) || memsize::dispatch_big(harness) || hashers::dispatch(harness)
}
