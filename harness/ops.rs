//! One-step harnesses ("from an arbitrary valid state of n entries execute one
//! operation with symbolic arguments") for the mutating map operations.
use super::*;

/// Table capacity used by the symbolic-size step harnesses (growth cut, DESIGN 3.4).
const CAP: usize = 7;
/// Smaller table (4 buckets) for the n <= 2 harnesses: 2 + 1 entries still never fill it.
const CAP_SMALL: usize = 3;

fn sym_heap(hb: u32) -> usize {
    let h: usize = sym::any();
    if hb < 64 {
        sym::assume(h < (1usize << hb));
    } else {
        sym::assume(h <= usize::MAX - ES0);
    }
    h
}

/// Drops the cache and checks the ghost drop table (C06): the original n
/// entries' keys and values plus `extra` ids were each dropped exactly once.
fn finish(c: C, n: usize, extra: &[u8]) {
    drop(c);
    check_drops(n, extra);
    vend!();
}

// ---------------------------------------------------------------------------
// insert
// ---------------------------------------------------------------------------
pub fn h_insert(n: usize, tab: [u8; 8], hb: u32) {
    h_insert_k(n, tab, hb, -1)
}
/// `kfix >= 0`: the key is concrete (one harness per key splits the query).
pub fn h_insert_k(n: usize, tab: [u8; 8], hb: u32, kfix: i8) {
    h_insert_kp(n, tab, hb, kfix, false)
}
/// `probe`: also run the C02 drain probe afterwards (expensive on this operation; thorough tier).
pub fn h_insert_kp(n: usize, tab: [u8; 8], hb: u32, kfix: i8, probe: bool) {
    let st = sym_state(n, hb);
    let mut c = build(n, &st.heaps, st.max, tab, if n <= 2 { CAP_SMALL } else { CAP });
    tm::expect_no_grow(true);
    let k = if kfix >= 0 { kfix as u8 } else { sym_key(n as u8 + 1) };
    let h = sym_heap(hb);
    let e = esz(h);
    let present = (k as usize) < n;
    #[cfg(any(vp_all, C10))]
    let f0 = fp(&c, n + 1);
    let r = c.insert(Key::new(k, NEW_KID), Val { heap: h, id: NEW_VID });
    let hashes = unsafe { HASHES };
    let mut departed = 0usize;
    if e > st.max {
        vcover!(true, "insert: entry larger than max_size");
        vcover!(if present, true, "insert: too-large entry for a present key");
        match r {
            Err(InsertError::EntryTooLarge { key, value, entry_size, max_size }) => {
                vassert!([C10, C06], key.k == k && key.id == NEW_KID && value.id == NEW_VID && value.heap == h, "EntryTooLarge does not return the very key and value passed in");
                vassert!([C10], entry_size == e && max_size == st.max, "EntryTooLarge reports wrong entry_size / max_size");
            }
            Ok(_) => {
                vassert!([C10, C01], false, "insert accepted an entry whose entry_size exceeds max_size");
            }
        }
        check_state(&c, &st, &Exp::unchanged(&st), Want { evicting: false });
        vassert!([C10], fp(&c, n + 1).same(&f0), "a rejected insert changed contents, order, sizes or links");
    } else {
        let target = st.max - e;
        let mut alive = [false; NMAX];
        let mut cur = st.sum - if present { st.sz[k as usize] } else { 0 };
        let mut j = 0;
        while j < n {
            if j == k as usize {
                departed += 1;
            } else if cur > target {
                cur -= st.sz[j];
                departed += 1;
            } else {
                alive[j] = true;
            }
            j += 1;
        }
        // first / last original entry other than the key's own
        let f = if k == 0 { 1 } else { 0 };
        let l = if n >= 1 && k as usize == n - 1 { n.wrapping_sub(2) } else { n.wrapping_sub(1) };
        let others = n - if present { 1 } else { 0 };
        vcover!(if others >= 1, cur + e == st.max && alive[f], "insert: exact fit, nothing evicted");
        vcover!(if others >= 2, !alive[f] && alive[l], "insert: evicts a proper prefix");
        vcover!(if others >= 1, cur == 0, "insert: evicts everything");
        vcover!(if present && others >= 1, alive[f] && cur + e > st.max - st.sz[k as usize], "insert: replacement fits only because the old entry's size is credited first");
        match r {
            Ok(Some(v)) => {
                vassert!([C04, C06], present && v.id == k && v.heap == st.heaps[k as usize], "insert returned a value other than the one previously stored for the key");
            }
            Ok(None) => {
                vassert!([C04, C06], !present, "insert did not return the value it replaced");
            }
            Err(_) => {
                vassert!([C10], false, "insert rejected an entry whose entry_size fits max_size");
            }
        }
        let exp = Exp { alive, tail: Some(Ent { k, kid: NEW_KID, vid: NEW_VID, heap: h }), max: st.max };
        check_state(&c, &st, &exp, Want { evicting: true });
        vassert!([C10], !(e <= st.max - st.sum && !present) || c.len() == n + 1, "an entry that fits the free space evicted something");
    }
    vassert!([C20], hashes <= 2 + departed, "insert computed more than two key hashes plus one per departing entry");
    inv(&c, n + 1);
    if probe {
        drain_probe(&mut c, n + 1);
    }
    finish(c, n, &[NEW_VID, NEW_KID]);
}

// ---------------------------------------------------------------------------
// set_max_size
// ---------------------------------------------------------------------------
pub fn h_set_max_size(n: usize, tab: [u8; 8], hb: u32) {
    let st = sym_state(n, hb);
    let mut c = build(n, &st.heaps, st.max, tab, CAP);
    let m: usize = sym::any();
    c.set_max_size(m);
    let hashes = unsafe { HASHES };
    let mut alive = [false; NMAX];
    let mut cur = st.sum;
    let mut departed = 0usize;
    let mut j = 0;
    while j < n {
        if cur > m {
            cur -= st.sz[j];
            departed += 1;
        } else {
            alive[j] = true;
        }
        j += 1;
    }
    vcover!(if n > 0, cur == m && alive[0], "set_max_size: exactly the current size, nothing evicted");
    vcover!(if n >= 2, !alive[0] && alive[n - 1], "set_max_size: evicts a proper prefix");
    vcover!(if n >= 1, !alive[n - 1], "set_max_size: evicts everything");
    vcover!(m > st.max, "set_max_size: raises the limit");
    let exp = Exp { alive, tail: None, max: m };
    check_state(&c, &st, &exp, Want { evicting: true });
    vassert!([C20], hashes <= 2 + departed, "set_max_size computed more than two key hashes plus one per departing entry");
    inv(&c, n + 1);
    drain_probe(&mut c, n + 1);
    finish(c, n, &[]);
}

// ---------------------------------------------------------------------------
// try_insert
// ---------------------------------------------------------------------------
pub fn h_try_insert(n: usize, tab: [u8; 8], hb: u32) {
    h_try_insert_k(n, tab, hb, -1)
}
pub fn h_try_insert_k(n: usize, tab: [u8; 8], hb: u32, kfix: i8) {
    h_try_insert_kp(n, tab, hb, kfix, false)
}
pub fn h_try_insert_kp(n: usize, tab: [u8; 8], hb: u32, kfix: i8, probe: bool) {
    let st = sym_state(n, hb);
    let mut c = build(n, &st.heaps, st.max, tab, if n <= 2 { CAP_SMALL } else { CAP });
    tm::expect_no_grow(true);
    let k = if kfix >= 0 { kfix as u8 } else { sym_key(n as u8 + 1) };
    let h = sym_heap(hb);
    let e = esz(h);
    let present = (k as usize) < n;
    let free = st.max - st.sum;
    #[cfg(any(vp_all, C10))]
    let f0 = fp(&c, n + 1);
    let r = c.try_insert(Key::new(k, NEW_KID), Val { heap: h, id: NEW_VID });
    let hashes = unsafe { HASHES };
    vcover!(if present, e > st.max, "try_insert: too large and occupied at once");
    vcover!(if present, e <= st.max && e > free, "try_insert: would eject and occupied at once");
    vcover!(if present, e <= free, "try_insert: occupied only");
    vcover!(if n > 0 && !present, e == free, "try_insert: exact fit succeeds");
    vcover!(free.checked_add(1) == Some(e) && e <= st.max, "try_insert: one byte over the free space");
    vcover!(st.max.checked_add(1) == Some(e), "try_insert: one byte over max_size");
    let ok = match r {
        Ok(()) => {
            vassert!([C10, C04], e <= free && !present, "try_insert succeeded although the entry is too large, does not fit the free space, or the key is present");
            true
        }
        Err(err) => {
            {
                let (ek, ev) = err.entry();
                vassert!([C10, C06], ek.k == k && ek.id == NEW_KID && ev.id == NEW_VID && ev.heap == h, "TryInsertError::entry() is not the very key and value passed in");
                vassert!([C10], err.key().id == NEW_KID && err.value().id == NEW_VID, "TryInsertError::key()/value() are not the key and value passed in");
            }
            match err {
                TryInsertError::EntryTooLarge { key, value, entry_size, max_size } => {
                    vassert!([C10], e > st.max, "try_insert reported EntryTooLarge for an entry that fits max_size");
                    vassert!([C10], entry_size == e && max_size == st.max, "EntryTooLarge reports wrong entry_size / max_size");
                    vassert!([C10, C06], key.id == NEW_KID && value.id == NEW_VID, "EntryTooLarge does not carry the key and value passed in");
                }
                TryInsertError::WouldEjectLru { key, value, entry_size, free_memory } => {
                    vassert!([C10], e <= st.max && e > free, "try_insert reported WouldEjectLru although the entry is too large for the cache or fits the free space");
                    vassert!([C10], entry_size == e && free_memory == free, "WouldEjectLru reports wrong entry_size / free_memory");
                    vassert!([C10, C06], key.id == NEW_KID && value.id == NEW_VID, "WouldEjectLru does not carry the key and value passed in");
                }
                TryInsertError::OccupiedEntry { key, value } => {
                    vassert!([C10, C04], e <= free && present, "try_insert reported OccupiedEntry although another failure takes precedence or the key is absent");
                    vassert!([C10, C06], key.id == NEW_KID && value.id == NEW_VID, "OccupiedEntry does not carry the key and value passed in");
                }
            }
            false
        }
    };
    if ok {
        let exp = Exp { alive: Exp::unchanged(&st).alive, tail: Some(Ent { k, kid: NEW_KID, vid: NEW_VID, heap: h }), max: st.max };
        check_state(&c, &st, &exp, Want { evicting: false });
    } else {
        check_state(&c, &st, &Exp::unchanged(&st), Want { evicting: false });
        vassert!([C10], fp(&c, n + 1).same(&f0), "a rejected try_insert changed contents, order, sizes or links");
    }
    vassert!([C20], hashes <= 2, "try_insert computed more than two key hashes");
    inv(&c, n + 1);
    if probe {
        drain_probe(&mut c, n + 1);
    }
    finish(c, n, &[NEW_VID, NEW_KID]);
}

// ---------------------------------------------------------------------------
// mutate
// ---------------------------------------------------------------------------
static mut CALLED: u8 = 0;

/// Resets the per-harness ghost state (native witness search runs a harness many times).
#[cfg(not(kani))]
pub fn reset_ghost() {
    unsafe {
        CALLED = 0;
        LOGN = 0;
        LOG = [(99, 99, 99); NMAX + 1];
    }
}

pub fn h_mutate(n: usize, tab: [u8; 8], hb: u32) {
    h_mutate_k(n, tab, hb, -1)
}
pub fn h_mutate_k(n: usize, tab: [u8; 8], hb: u32, kfix: i8) {
    h_mutate_kp(n, tab, hb, kfix, false)
}
pub fn h_mutate_kp(n: usize, tab: [u8; 8], hb: u32, kfix: i8, probe: bool) {
    let st = sym_state(n, hb);
    let mut c = build(n, &st.heaps, st.max, tab, if n <= 2 { CAP_SMALL } else { CAP });
    let k = if kfix >= 0 { kfix as u8 } else { sym_key(n as u8 + 1) };
    let nh = sym_heap(hb);
    let newsz = esz(nh);
    let present = (k as usize) < n;
    let ki = if present { k as usize } else { 0 };
    // A1(c): the contents plus the growth of the mutated value are representable
    if present && newsz <= st.max {
        match (st.sum - st.sz[ki]).checked_add(newsz) {
            Some(_) => {}
            None => sym::assume(false),
        }
    }
    let r = c.mutate(&k, |v: &mut Val| {
        unsafe { CALLED += 1; }
        v.heap = nh;
        77u8
    });
    let hashes = unsafe { HASHES };
    let called = unsafe { CALLED };
    let mut departed = 0usize;
    if !present {
        vassert!([C11], matches!(r, Ok(None)), "mutate of an absent key did not return Ok(None)");
        vassert!([C11], called == 0, "mutate called the closure for an absent key");
        check_state(&c, &st, &Exp::unchanged(&st), Want { evicting: false });
    } else {
        vassert!([C11], called == 1, "mutate did not call the closure exactly once for a present key");
        let old = st.sz[ki];
        if newsz > st.max {
            vcover!(true, "mutate: growth beyond max_size");
            vcover!(if n >= 2 && ki == 0, true, "mutate: the LRU entry grows beyond max_size");
            match r {
                Err(MutateError::EntryTooLarge { key, value, old_entry_size, new_entry_size, max_size }) => {
                    vassert!([C11, C06], key.k == k && key.id == 8 + k && value.id == k && value.heap == nh, "MutateError::EntryTooLarge does not return the entry's key and the mutated value");
                    vassert!([C11], old_entry_size == old && new_entry_size == newsz && max_size == st.max, "MutateError::EntryTooLarge reports wrong sizes");
                }
                _ => {
                    vassert!([C11, C01], false, "mutate accepted a value whose entry exceeds max_size");
                }
            }
            let mut alive = Exp::unchanged(&st).alive;
            alive[ki] = false;
            departed = 1;
            let exp = Exp { alive, tail: None, max: st.max };
            check_state(&c, &st, &exp, Want { evicting: false });
        } else {
            match r {
                Ok(Some(t)) => {
                    vassert!([C11], t == 77, "mutate did not forward the closure's result");
                }
                _ => {
                    vassert!([C11], false, "mutate failed although the mutated entry fits max_size");
                }
            }
            let mut alive = [false; NMAX];
            let mut cur = st.sum - old + newsz;
            let mut j = 0;
            while j < n {
                if j == ki {
                } else if cur > st.max {
                    cur -= st.sz[j];
                    departed += 1;
                } else {
                    alive[j] = true;
                }
                j += 1;
            }
            vcover!(nh < st.heaps[ki], "mutate: shrink");
            vcover!(nh == st.heaps[ki], "mutate: no size change");
            vcover!(if n >= 2, nh > st.heaps[ki] && departed == 0, "mutate: growth that fits");
            vcover!(if n >= 3, departed == 1 && alive[if ki == n - 1 { n - 2 } else { n - 1 }], "mutate: growth evicting exactly one of several");
            vcover!(if n >= 2, departed == n - 1, "mutate: growth evicting every other entry");
            vcover!(if n >= 2 && ki == 0, departed >= 1, "mutate: the LRU entry grows and older-by-promotion entries are evicted");
            vcover!(cur == st.max && nh > st.heaps[ki], "mutate: growth to an exact fit");
            let exp = Exp { alive, tail: Some(Ent { k, kid: 8 + k, vid: k, heap: nh }), max: st.max };
            check_state(&c, &st, &exp, Want { evicting: true });
        }
    }
    vassert!([C20], hashes <= 2 + departed, "mutate computed more than two key hashes plus one per departing entry");
    inv(&c, n + 1);
    if probe {
        drain_probe(&mut c, n + 1);
    }
    finish(c, n, &[]);
}

// ---------------------------------------------------------------------------
// remove, remove_entry, remove_lru, remove_mru
// ---------------------------------------------------------------------------
pub fn h_remove(n: usize, tab: [u8; 8], hb: u32, which: u8) {
    let st = sym_state(n, hb);
    let mut c = build(n, &st.heaps, st.max, tab, CAP);
    let k = sym_key(n as u8 + 1);
    let mut alive = Exp::unchanged(&st).alive;
    let mut departed = 0usize;
    let victim: Option<usize> = match which {
        0 | 1 => if (k as usize) < n { Some(k as usize) } else { None },
        2 => if n > 0 { Some(0) } else { None },
        _ => if n > 0 { Some(n - 1) } else { None },
    };
    let got: Option<(Option<Key>, Val)> = match which {
        0 => c.remove(&k).map(|v| (None, v)),
        1 => c.remove_entry(&k).map(|(kk, v)| (Some(kk), v)),
        2 => c.remove_lru().map(|(kk, v)| (Some(kk), v)),
        _ => c.remove_mru().map(|(kk, v)| (Some(kk), v)),
    };
    let hashes = unsafe { HASHES };
    match (got, victim) {
        (Some((gk, gv)), Some(vi)) => {
            vassert!([C04, C06], gv.id == vi as u8 && gv.heap == st.heaps[vi], "removal returned a value other than the one stored for the key");
            if let Some(gk) = gk {
                vassert!([C04, C06], gk.k == vi as u8 && gk.id == 8 + vi as u8, "removal returned a key other than the stored one");
            }
            alive[vi] = false;
            departed = 1;
        }
        (None, None) => {}
        (Some(_), None) => {
            vassert!([C04], false, "removal returned an entry for an absent key / from an empty cache");
        }
        (None, Some(_)) => {
            vassert!([C04], false, "removal returned nothing although the entry is present");
        }
    }
    vcover!(if n > 0, victim.is_some(), "remove: entry present");
    vcover!(if which < 2 || n == 0, victim.is_none(), "remove: nothing to remove");
    let exp = Exp { alive, tail: None, max: st.max };
    check_state(&c, &st, &exp, Want { evicting: false });
    vassert!([C20], hashes <= 2 + departed, "removal computed more than two key hashes plus one per departing entry");
    inv(&c, n + 1);
    drain_probe(&mut c, n + 1);
    finish(c, n, &[]);
}

// ---------------------------------------------------------------------------
// accesses: get, get_entry, get_lru, touch promote; peek*, contains do not
// ---------------------------------------------------------------------------
pub fn h_access(n: usize, tab: [u8; 8], which: u8) {
    let st = sym_state(n, 40);
    let mut c = build(n, &st.heaps, st.max, tab, CAP);
    let k = sym_key(n as u8 + 1);
    let present = (k as usize) < n;
    #[cfg(any(vp_all, C19, C05))]
    let f0 = fp(&c, n + 1);
    // (found key, found value id, found heap)
    let got: Option<(u8, u8, usize)> = match which {
        0 => c.get(&k).map(|v| (k, v.id, v.heap)),
        1 => c.get_entry(&k).map(|(kk, v)| (kk.k, v.id, v.heap)),
        2 => c.get_lru().map(|(kk, v)| (kk.k, v.id, v.heap)),
        3 => { c.touch(&k); if present { Some((k, k, st.heaps[k as usize])) } else { None } }
        4 => c.peek(&k).map(|v| (k, v.id, v.heap)),
        5 => c.peek_entry(&k).map(|(kk, v)| (kk.k, v.id, v.heap)),
        6 => if c.contains(&k) { Some((k, k, st.heaps[k as usize])) } else { None },
        7 => c.peek_lru().map(|(kk, v)| (kk.k, v.id, v.heap)),
        _ => c.peek_mru().map(|(kk, v)| (kk.k, v.id, v.heap)),
    };
    let hashes = unsafe { HASHES };
    let target: Option<usize> = match which {
        2 | 7 => if n > 0 { Some(0) } else { None },
        8 => if n > 0 { Some(n - 1) } else { None },
        _ => if present { Some(k as usize) } else { None },
    };
    match (got, target) {
        (Some((gk, gid, gh)), Some(t)) => {
            vassert!([C04, C05], gk == t as u8 && gid == t as u8 && gh == st.heaps[t], "access returned a different entry than the one stored for the key / at that end of the order");
        }
        (None, None) => {}
        _ => {
            vassert!([C04, C05], false, "access found an absent entry or missed a present one");
        }
    }
    vcover!(if n >= 2 && which != 8, target == Some(0), "access: the LRU entry");
    vcover!(if n >= 3 && which != 2 && which < 7, target == Some(1), "access: a middle entry");
    vcover!(if n >= 1 && which != 2 && which != 7, target == Some(n - 1), "access: the MRU entry");
    vcover!(if n == 0 || (which != 2 && which < 7), target.is_none(), "access: absent");
    let promoting = which <= 3;
    let mut alive = Exp::unchanged(&st).alive;
    let mut tail = None;
    if promoting {
        if let Some(t) = target {
            alive[t] = false;
            tail = Some(Ent { k: t as u8, kid: 8 + t as u8, vid: t as u8, heap: st.heaps[t] });
        }
    }
    let exp = Exp { alive, tail, max: st.max };
    check_state(&c, &st, &exp, Want { evicting: false });
    if !promoting {
        vassert!([C19, C05], fp(&c, n + 1).same(&f0), "an observation through a shared reference changed the cache's structure");
    }
    if which == 7 || which == 8 {
        vassert!([C20], hashes == 0, "peek_lru/peek_mru computed a key hash");
    } else {
        vassert!([C20], hashes <= 2, "an access computed more than two key hashes");
    }
    inv(&c, n + 1);
    drain_probe(&mut c, n + 1);
    finish(c, n, &[]);
}

// ---------------------------------------------------------------------------
// retain
// ---------------------------------------------------------------------------
static mut LOG: [(u8, u8, u8); NMAX + 1] = [(99, 99, 99); NMAX + 1];
static mut LOGN: usize = 0;

pub fn h_retain(n: usize, tab: [u8; 8]) {
    let st = sym_state(n, 40);
    let mut c = build(n, &st.heaps, st.max, tab, CAP);
    let mask: u8 = sym::any();
    c.retain(|k: &Key, v: &Val| {
        unsafe {
            if LOGN < NMAX + 1 {
                LOG[LOGN] = (k.k, k.id, v.id);
            }
            LOGN += 1;
        }
        (mask >> v.id) & 1 == 1
    });
    let hashes = unsafe { HASHES };
    vassert!([C15], unsafe { LOGN } == n, "retain did not call the predicate exactly once per entry");
    let mut alive = [false; NMAX];
    let mut departed = 0;
    let mut j = 0;
    while j < n {
        vassert!([C15], unsafe { LOG[j] } == (j as u8, 8 + j as u8, j as u8), "retain did not visit the entries from least- to most-recently-used with their actual key and value");
        if (mask >> j) & 1 == 1 {
            alive[j] = true;
        } else {
            departed += 1;
        }
        j += 1;
    }
    vcover!(if n >= 3, departed == 0, "retain: keeps all");
    vcover!(if n >= 3, departed == n, "retain: removes all");
    vcover!(if n >= 3, !alive[0] && alive[1] && !alive[2], "retain: removes both ends");
    vcover!(if n >= 3, alive[0] && !alive[1] && alive[2], "retain: removes the middle");
    let exp = Exp { alive, tail: None, max: st.max };
    check_state(&c, &st, &exp, Want { evicting: false });
    vassert!([C20], hashes <= 2 + departed, "retain computed more than two key hashes plus one per departing entry");
    inv(&c, n + 1);
    drain_probe(&mut c, n + 1);
    finish(c, n, &[]);
}

// ---------------------------------------------------------------------------
// clear
// ---------------------------------------------------------------------------
pub fn h_clear(n: usize, tab: [u8; 8]) {
    let st = sym_state(n, 40);
    let mut c = build(n, &st.heaps, st.max, tab, CAP);
    tm::expect_no_grow(true);
    c.clear();
    let hashes = unsafe { HASHES };
    let exp = Exp { alive: [false; NMAX], tail: None, max: st.max };
    check_state(&c, &st, &exp, Want { evicting: false });
    vassert!([C02, C12], c.len() == 0 && c.current_size() == 0 && c.is_empty(), "clear did not reset len / current_size");
    vassert!([C20], hashes == 0, "clear computed a key hash");
    inv(&c, n + 1);
    // the cleared cache is fully usable
    let h = sym_heap(40);
    sym::assume(esz(h) <= st.max);
    let r = c.insert(Key::new(0, NEW_KID), Val { heap: h, id: NEW_VID });
    vassert!([C02, C04, C06], matches!(r, Ok(None)), "insert into a cleared cache did not succeed as a fresh insertion");
    vassert!([C02, C04], c.len() == 1 && c.current_size() == esz(h) && c.peek(&0u8).map(|v| v.id) == Some(NEW_VID), "a cleared cache does not hold exactly the entry inserted afterwards");
    inv(&c, n + 1);
    finish(c, n, &[NEW_VID, NEW_KID]);
}


// ---------------------------------------------------------------------------
// bounded histories from the empty cache (cross-check that the states reached
// through the public API satisfy the invariant the step harnesses start from)
// ---------------------------------------------------------------------------
/// ops: 0 insert, 1 remove, 2 set_max_size, 3 mutate, 4 get, 5 try_insert (keys in 0..2, sizes < 2^hb, symbolic limit)
pub fn h_history(ops: &[u8], hb: u32) {
    let max: usize = sym::any();
    let mut c: C = LruCache::with_capacity_and_hasher(max, 7, TabBuild { tab: tab_of(6) });
    tm::expect_no_grow(true);
    let mut i = 0;
    while i < ops.len() {
        let k = sym_key(2);
        match ops[i] {
            0 => {
                let h = sym_heap(hb);
                let r = c.insert(Key::new(k, 32 + 2 * i as u8), Val { heap: h, id: 33 + 2 * i as u8 });
                vassert!([C10], r.is_err() == (esz(h) > c.max_size()), "insert fails exactly when the entry exceeds max_size");
                std::mem::forget(r);
            }
            1 => {
                std::mem::forget(c.remove(&k));
            }
            2 => {
                let m: usize = sym::any();
                c.set_max_size(m);
            }
            3 => {
                let nh = sym_heap(hb);
                let r = c.mutate(&k, |v: &mut Val| { v.heap = nh; });
                std::mem::forget(r);
            }
            4 => {
                let _ = c.get(&k);
            }
            _ => {
                let h = sym_heap(hb);
                let r = c.try_insert(Key::new(k, 32 + 2 * i as u8), Val { heap: h, id: 33 + 2 * i as u8 });
                std::mem::forget(r);
            }
        }
        // the invariant of DESIGN.md 3.3 holds after every step of a real history
        inv(&c, 3);
        vassert!([C01], c.current_size() <= c.max_size(), "current_size() exceeds max_size() after a step of a history from the empty cache");
        vassert!([C04, C07], c.len() <= 2, "more entries than distinct keys");
        i += 1;
    }
    vcover!(if ops[ops.len() - 1] != 1, c.len() == 2, "history: two entries held at the end");
    vcover!(c.len() == 0, "history: empty at the end");
    std::mem::forget(c);
    vend!();
}

// tab_of(6) = [0,1,0,1] "mixed" (two collision classes); tab_of(0) = all keys collide; tab_of(14) = all distinct.
// Heavy operations are split by concrete key (kN = key N; key n is the absent one): one query per key.
harnesses! {
    insert_n3_k0 [5] => h_insert_k(3, tab_of(6), 40, 0); //@ q=C01,C03,C04,C05,C06,C07,C10,C20 t=C02 to=1200
    insert_n3_k1 [5] => h_insert_k(3, tab_of(6), 40, 1); //@ q=C01,C03,C04,C05,C06,C07,C10,C20 t=C02 to=1200
    insert_n3_k2 [5] => h_insert_k(3, tab_of(6), 40, 2); //@ q=C01,C03,C05 t=C04,C06,C07,C10,C20,C02 to=1200
    insert_n3_k3 [5] => h_insert_k(3, tab_of(6), 40, 3); //@ q=C01,C03,C04,C05,C06,C07,C10,C20 t=C02 to=1200
    insert_n2_sym [4] => h_insert(2, tab_of(6), 40); //@ t=C01,C02,C03,C04,C10 to=2400 solver=portfolio
    insert_n3_collide_k1 [5] => h_insert_k(3, tab_of(0), 40, 1); //@ q=C04 t=C01,C03,C07 to=1200
    insert_n3_distinct_k3 [5] => h_insert_k(3, tab_of(14), 40, 3); //@ t=C04,C01,C03 to=1200
    insert_n3_seedtab_k1 [5] => h_insert_k(3, tab_of(SEED_TAB), 40, 1); //@ q=C04 t=C01,C03 to=1200
    insert_n2_k0 [4] => h_insert_k(2, tab_of(6), 40, 0); //@ q=C02 to=900
    insert_n2_k1 [4] => h_insert_k(2, tab_of(6), 40, 1); //@ q=C02 to=900
    insert_n2_k2 [4] => h_insert_k(2, tab_of(6), 40, 2); //@ q=C02 to=900
    mutate_n2_k0 [4] => h_mutate_k(2, tab_of(6), 40, 0); //@ q=C02 to=900 solver=cadical
    mutate_n2_k1 [4] => h_mutate_k(2, tab_of(6), 40, 1); //@ q=C02 to=900 solver=cadical
    tryinsert_n2_k0 [4] => h_try_insert_k(2, tab_of(6), 40, 0); //@ q=C02 to=900
    tryinsert_n2_k2 [4] => h_try_insert_k(2, tab_of(6), 40, 2); //@ q=C02 to=900
    remove_n2_mixed [4] => h_remove(2, tab_of(6), 40, 0); //@ q=C02 to=600
    remove_entry_n2_collide [4] => h_remove(2, tab_of(0), 40, 1); //@ q=C02 to=600
    insert_n2_probe_k0 [4] => h_insert_kp(2, tab_of(6), 40, 0, true); // not registered: the full drain probe after an insert runs out of memory (12 GB) - measured
    insert_n2_probe_k2 [4] => h_insert_kp(2, tab_of(6), 40, 2, true); // not registered: the full drain probe after an insert runs out of memory (12 GB) - measured
    mutate_n2_probe_k0 [4] => h_mutate_kp(2, tab_of(6), 40, 0, true); //@ t=C02 to=1800 solver=cadical
    tryinsert_n2_probe_k2 [4] => h_try_insert_kp(2, tab_of(6), 40, 2, true); //@ t=C02 to=900
    insert_n1_full [3] => h_insert(1, tab_of(6), 64); //@ to=600 t=C01,C02,C03,C10
    insert_n0_full [3] => h_insert(0, tab_of(6), 64); //@ to=600 t=C01,C02,C10
    insert_n2_full_k0 [4] => h_insert_k(2, tab_of(6), 64, 0); //@ t=C01,C02,C03,C10 to=1800
    insert_n2_full_k2 [4] => h_insert_k(2, tab_of(6), 64, 2); //@ t=C01,C02,C03,C10 to=1800
    setmax_n2_full [4] => h_set_max_size(2, tab_of(6), 64); //@ q=C01,C02,C03,C05,C06,C07,C20 to=600
    setmax_n3_mixed [5] => h_set_max_size(3, tab_of(6), 40); //@ q=C01,C02,C03,C05,C06,C07,C20 to=600
    setmax_n3_collide_full [5] => h_set_max_size(3, tab_of(0), 64); //@ t=C01,C02,C03,C05,C06,C07 to=900
    setmax_n4_mixed [6] => h_set_max_size(4, tab_of(6), 40); //@ t=C01,C02,C03,C05 to=1200
    tryinsert_n3_k0 [5] => h_try_insert_k(3, tab_of(6), 40, 0); //@ q=C01,C04,C05,C06,C07,C10,C20 t=C02 to=900
    tryinsert_n3_k3 [5] => h_try_insert_k(3, tab_of(6), 40, 3); //@ q=C01,C04,C05,C06,C07,C10,C20 t=C02 to=900
    tryinsert_n3_k1 [5] => h_try_insert_k(3, tab_of(6), 40, 1); //@ t=C01,C02,C04,C05,C10 to=900
    tryinsert_n2_sym_full [4] => h_try_insert(2, tab_of(6), 64); //@ t=C01,C02,C04,C10 to=1200
    tryinsert_n1_full [3] => h_try_insert(1, tab_of(6), 64); //@ q=C10 t=C01,C02 to=600 solver=cadical
    tryinsert_n2_collide [4] => h_try_insert(2, tab_of(0), 40); //@ q=C04,C10 to=900
    mutate_n3_k0 [5] => h_mutate_k(3, tab_of(6), 40, 0); //@ q=C01,C03,C05,C06,C07,C11,C20 t=C02 to=1200 solver=cadical
    mutate_n3_k1 [5] => h_mutate_k(3, tab_of(6), 40, 1); //@ q=C01,C03,C05,C06,C07,C11,C20,C04 t=C02 to=1200 solver=cadical
    mutate_n3_k2 [5] => h_mutate_k(3, tab_of(6), 40, 2); //@ q=C01,C03,C05,C11,C04 t=C06,C07,C20,C02 to=1200 solver=cadical
    mutate_n3_k3 [5] => h_mutate_k(3, tab_of(6), 40, 3); //@ q=C05,C11,C20 t=C01,C02 to=600 solver=cadical
    mutate_n2_sym [4] => h_mutate(2, tab_of(6), 40); //@ t=C01,C02,C03,C11 to=3000 solver=portfolio
    mutate_n3_collide_k0 [5] => h_mutate_k(3, tab_of(0), 40, 0); //@ t=C01,C03,C07,C11 to=1200 solver=cadical
    mutate_n1_full [3] => h_mutate(1, tab_of(6), 64); //@ to=600 solver=cadical t=C01,C02,C11
    mutate_n2_full_k0 [4] => h_mutate_k(2, tab_of(6), 64, 0); //@ t=C01,C02,C03,C11 to=1800 solver=cadical
    remove_n3_mixed [5] => h_remove(3, tab_of(6), 40, 0); //@ q=C01,C04,C05,C06,C07,C20 t=C02 to=600
    remove_entry_n3_collide [5] => h_remove(3, tab_of(0), 40, 1); //@ q=C04,C05,C06,C07,C20 t=C02 to=600
    remove_lru_n3_mixed [5] => h_remove(3, tab_of(6), 40, 2); //@ q=C02,C04,C05,C06,C07,C20 to=600
    remove_mru_n3_mixed [5] => h_remove(3, tab_of(6), 40, 3); //@ q=C02,C04,C05,C06,C07,C20 to=600
    remove_n0 [3] => h_remove(0, tab_of(6), 40, 2); //@ q=C04 t=C02 to=600
    remove_n4_mixed [6] => h_remove(4, tab_of(6), 40, 0); //@ t=C04,C05,C06 to=900
    get_n3_mixed [5] => h_access(3, tab_of(6), 0); //@ q=C04,C05,C07,C20 t=C01 to=600
    get_n3_collide [5] => h_access(3, tab_of(0), 0); //@ q=C04 t=C05,C07 to=600
    get_n3_seedtab [5] => h_access(3, tab_of(SEED_TAB), 0); //@ q=C04 t=C05 to=600
    remove_n3_seedtab [5] => h_remove(3, tab_of(SEED_TAB), 40, 0); //@ q=C04 t=C02 to=600
    get_entry_n3_mixed [5] => h_access(3, tab_of(6), 1); //@ q=C04,C05,C20 t=C07 to=600
    get_lru_n3_mixed [5] => h_access(3, tab_of(6), 2); //@ q=C04,C05,C20 t=C07 to=600
    touch_n3_mixed [5] => h_access(3, tab_of(6), 3); //@ q=C05,C07,C20 t=C04 to=600
    get_n4_mixed [6] => h_access(4, tab_of(6), 0); //@ t=C04,C05 to=900
    touch_n1 [3] => h_access(1, tab_of(6), 3); //@ q=C05,C07 to=600
    get_lru_n0 [3] => h_access(0, tab_of(6), 2); //@ q=C05 to=600
    peek_mru_n1 [3] => h_access(1, tab_of(6), 8); //@ q=C19,C05,C07 to=600
    peek_lru_n1 [3] => h_access(1, tab_of(6), 7); //@ q=C19,C05 to=600
    peek_n1 [3] => h_access(1, tab_of(6), 4); //@ q=C19 to=600
    peek_entry_n1 [3] => h_access(1, tab_of(6), 5); //@ q=C19 to=600
    contains_n2 [4] => h_access(2, tab_of(6), 6); //@ q=C19 to=600
    peek_mru_n2 [4] => h_access(2, tab_of(6), 8); //@ q=C19 to=600
    get_n1 [3] => h_access(1, tab_of(6), 0); //@ q=C05,C04,C07 to=600
    get_lru_n1 [3] => h_access(1, tab_of(6), 2); //@ q=C05,C07 to=600
    peek_n3_mixed [5] => h_access(3, tab_of(6), 4); //@ q=C04,C05,C19,C20 to=600
    peek_entry_n3_collide [5] => h_access(3, tab_of(0), 5); //@ q=C04,C05,C19,C20 to=600
    contains_n3_mixed [5] => h_access(3, tab_of(6), 6); //@ q=C04,C05,C19,C20 to=600
    peek_lru_n3_mixed [5] => h_access(3, tab_of(6), 7); //@ q=C05,C19,C20 to=600
    peek_mru_n3_mixed [5] => h_access(3, tab_of(6), 8); //@ q=C05,C19,C20 to=600
    retain_n3_mixed [5] => h_retain(3, tab_of(6)); //@ q=C01,C04,C05,C06,C07,C15,C20 t=C02 to=900
    retain_n2_collide [4] => h_retain(2, tab_of(0)); //@ q=C15,C02 t=C04,C07 to=900
    retain_n4_mixed [6] => h_retain(4, tab_of(6)); //@ t=C15,C05,C06 to=1200
    history_ins_ins [4] => h_history(&[0, 0], 40); //@ t=C01,C02,C07 to=1800
    history_ins_ins_mut [4] => h_history(&[0, 0, 3], 40); //@ t=C01,C02,C07 to=3000 solver=portfolio
    history_ins_ins_setmax [4] => h_history(&[0, 0, 2], 40); //@ t=C01,C02,C07 to=3000 solver=portfolio
    history_ins_tryins_rem [4] => h_history(&[0, 5, 1], 40); //@ t=C01,C02,C07 to=3000 solver=portfolio
    clear_n3_mixed [5] => h_clear(3, tab_of(6)); //@ q=C02,C06,C07,C20 t=C01,C04 to=600
}
