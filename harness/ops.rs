//! One-step harnesses ("from an arbitrary valid state of n entries execute one
//! operation with symbolic arguments") for the mutating map operations.
use super::*;

/// Table capacity used by the symbolic-size step harnesses (growth cut, DESIGN 3.4).
const CAP: usize = 7;
/// Smaller table (4 buckets) for the n <= 2 harnesses: 2 + 1 entries still never fill it.
const CAP_SMALL: usize = 3;

fn sym_heap(hb: u32) -> usize {
    let h: usize = sym::any();
    if hb < 64 {
        sym::assume(h < (1usize << hb));
    } else {
        sym::assume(h <= usize::MAX - ES0);
    }
    h
}

/// Drops the cache and checks the ghost drop table (C06): the original n
/// entries' keys and values plus `extra` ids were each dropped exactly once.
fn finish(c: C, n: usize, extra: &[u8]) {
    drop(c);
    check_drops(n, extra);
}

// ---------------------------------------------------------------------------
// insert
// ---------------------------------------------------------------------------
pub fn h_insert(n: usize, tab: [u8; 8], hb: u32) {
    let st = sym_state(n, hb);
    let mut c = build(n, &st.heaps, st.max, tab, if n <= 2 { CAP_SMALL } else { CAP });
    tm::expect_no_grow(true);
    let k = sym_key(n as u8 + 1);
    let h = sym_heap(hb);
    let e = esz(h);
    let present = (k as usize) < n;
    #[cfg(any(vp_all, C10))]
    let f0 = fp(&c, n + 1);
    let r = c.insert(Key::new(k, NEW_KID), Val { heap: h, id: NEW_VID });
    let hashes = unsafe { HASHES };
    let mut departed = 0usize;
    if e > st.max {
        vcover!(true, "insert: entry larger than max_size");
        vcover!(present, "insert: too-large entry for a present key");
        match r {
            Err(InsertError::EntryTooLarge { key, value, entry_size, max_size }) => {
                vassert!([C10, C06], key.k == k && key.id == NEW_KID && value.id == NEW_VID && value.heap == h, "EntryTooLarge does not return the very key and value passed in");
                vassert!([C10], entry_size == e && max_size == st.max, "EntryTooLarge reports wrong entry_size / max_size");
            }
            Ok(_) => {
                vassert!([C10, C01], false, "insert accepted an entry whose entry_size exceeds max_size");
            }
        }
        check_state(&c, &st, &Exp::unchanged(&st), Want { evicting: false });
        vassert!([C10], fp(&c, n + 1).same(&f0), "a rejected insert changed contents, order, sizes or links");
    } else {
        let target = st.max - e;
        let mut alive = [false; NMAX];
        let mut cur = st.sum - if present { st.sz[k as usize] } else { 0 };
        let mut j = 0;
        while j < n {
            if j == k as usize {
                departed += 1;
            } else if cur > target {
                cur -= st.sz[j];
                departed += 1;
            } else {
                alive[j] = true;
            }
            j += 1;
        }
        vcover!(cur + e == st.max && n > 0 && alive[0], "insert: exact fit, nothing evicted");
        vcover!(n >= 2 && !alive[0] && alive[n - 1] && k as usize != 0, "insert: evicts a proper prefix");
        vcover!(n >= 1 && cur == 0 && !present, "insert: evicts everything");
        vcover!(present && n >= 2 && alive[if k == 0 { 1 } else { 0 }] && cur + e > st.max - st.sz[k as usize], "insert: replacement fits only because the old entry's size is credited first");
        match r {
            Ok(Some(v)) => {
                vassert!([C04, C06], present && v.id == k && v.heap == st.heaps[k as usize], "insert returned a value other than the one previously stored for the key");
            }
            Ok(None) => {
                vassert!([C04, C06], !present, "insert did not return the value it replaced");
            }
            Err(_) => {
                vassert!([C10], false, "insert rejected an entry whose entry_size fits max_size");
            }
        }
        let exp = Exp { alive, tail: Some(Ent { k, kid: NEW_KID, vid: NEW_VID, heap: h }), max: st.max };
        check_state(&c, &st, &exp, Want { evicting: true });
        vassert!([C10], !(e <= st.max - st.sum && !present) || c.len() == n + 1, "an entry that fits the free space evicted something");
    }
    vassert!([C20], hashes <= 2 + departed, "insert computed more than two key hashes plus one per departing entry");
    inv(&c, n + 1);
    drain_probe(&mut c, n + 1);
    finish(c, n, &[NEW_VID, NEW_KID]);
}

// ---------------------------------------------------------------------------
// set_max_size
// ---------------------------------------------------------------------------
pub fn h_set_max_size(n: usize, tab: [u8; 8], hb: u32) {
    let st = sym_state(n, hb);
    let mut c = build(n, &st.heaps, st.max, tab, CAP);
    let m: usize = sym::any();
    c.set_max_size(m);
    let hashes = unsafe { HASHES };
    let mut alive = [false; NMAX];
    let mut cur = st.sum;
    let mut departed = 0usize;
    let mut j = 0;
    while j < n {
        if cur > m {
            cur -= st.sz[j];
            departed += 1;
        } else {
            alive[j] = true;
        }
        j += 1;
    }
    vcover!(n > 0 && cur == m && alive[0], "set_max_size: exactly the current size, nothing evicted");
    vcover!(n >= 2 && !alive[0] && alive[n - 1], "set_max_size: evicts a proper prefix");
    vcover!(n >= 1 && !alive[n - 1], "set_max_size: evicts everything");
    vcover!(m > st.max, "set_max_size: raises the limit");
    let exp = Exp { alive, tail: None, max: m };
    check_state(&c, &st, &exp, Want { evicting: true });
    vassert!([C20], hashes <= 2 + departed, "set_max_size computed more than two key hashes plus one per departing entry");
    inv(&c, n + 1);
    drain_probe(&mut c, n + 1);
    finish(c, n, &[]);
}

macro_rules! harnesses {
    ($( $name:ident [$u:literal] => $body:expr; )*) => {
        $(
            #[cfg(kani)]
            #[kani::proof]
            #[kani::unwind($u)]
            fn $name() { $body }
        )*
        #[cfg(not(kani))]
        pub fn dispatch(h: &str) -> bool {
            match h {
                $( stringify!($name) => { $body; true } )*
                _ => false
            }
        }
    };
}

harnesses! {
    insert_n2_mixed [4] => h_insert(2, tab_of(6), 40); //@ q=C01,C02,C03,C04,C05,C06,C07,C10,C20 to=900
    insert_n2_hb16 [4] => h_insert(2, tab_of(6), 16); //@ t=C00 to=900
    insert_n3_mixed [5] => h_insert(3, tab_of(6), 40); //@ t=C01,C02,C03,C04,C05,C06,C07,C10,C20 to=1800
    setmax_n2_mixed [4] => h_set_max_size(2, tab_of(6), 40); //@ q=C01,C02,C03,C05,C06,C07,C20 to=600
    setmax_n3_mixed [5] => h_set_max_size(3, tab_of(6), 40); //@ q=C01,C02,C03,C05,C06,C07,C20 to=600
}
