//! Iterator harnesses (C12, C06, C17, C19): a symbolic pattern of next /
//! next_back calls of symbolic length on each of the seven iterator kinds,
//! compared with a model deque; then the iterator is dropped or forgotten.
use super::*;

/// What one yielded item reveals: (key, key id, value id).
type Seen = (Option<u8>, Option<u8>, Option<u8>);

struct Deque {
    lo: usize,
    hi: usize,
}

/// Executes `steps` calls chosen by the bits of `pat` and compares each result
/// with the model deque of entries lo..hi (entry i = key i, key id 8+i, value id i).
fn drive<I, T>(it: &mut I, dq: &mut Deque, pat: u8, steps: usize, bound: usize, see: impl Fn(&T) -> Seen)
where
    I: DoubleEndedIterator<Item = T>,
{
    let mut s = 0;
    while s < bound {
        if s < steps {
            let back = (pat >> s) & 1 == 1;
            let got = if back { it.next_back() } else { it.next() };
            if dq.lo < dq.hi {
                let want = if back {
                    dq.hi -= 1;
                    dq.hi
                } else {
                    dq.lo += 1;
                    dq.lo - 1
                };
                match got {
                    Some(item) => {
                        let (k, kid, vid) = see(&item);
                        vassert!([C12, C05, C07], k.map_or(true, |k| k == want as u8) && kid.map_or(true, |x| x == 8 + want as u8) && vid.map_or(true, |x| x == want as u8), "iterator yielded a different entry than the next one in LRU order from that end");
                        drop(item);
                    }
                    None => {
                        vassert!([C12, C05, C07], false, "iterator ended before every entry was yielded");
                    }
                }
            } else {
                vassert!([C12, C05, C07], got.is_none(), "iterator yielded an entry after all entries had been yielded (each entry exactly once / fused)");
                std::mem::forget(got);
            }
        }
        s += 1;
    }
}

fn sym_pattern(n: usize) -> (u8, usize) {
    let pat: u8 = sym::any();
    let steps: usize = sym::any();
    sym::assume(steps <= n + 2);
    (pat, steps)
}

/// kind: 0 iter, 1 keys, 2 values, 3 drain, 4 into_iter, 5 into_keys, 6 into_values.
pub fn h_iter(n: usize, kind: u8, forget: bool, tab: [u8; 8]) {
    let st = sym_state(n, 40);
    let mut c = build(n, &st.heaps, st.max, tab, CAP_IT);
    // growth cut: the table (capacity 7) cannot fill with n <= 4 entries plus one insertion
    tm::expect_no_grow(true);
    let (pat, steps) = sym_pattern(n);
    let mut dq = Deque { lo: 0, hi: n };
    let b = n + 2;
    vcover!(if n >= 2, steps == n + 2 && pat & 3 == 1, "iterator: alternating ends, past exhaustion");
    vcover!(steps == 0, "iterator: dropped/forgotten before the first call");
    vcover!(if n >= 1, steps == n, "iterator: exactly exhausted");
    match kind {
        0 | 1 | 2 => {
            #[cfg(any(vp_all, C12, C19, C17))]
            let f0 = fp(&c, n + 1);
            match kind {
                0 => {
                    let mut it = c.iter();
                    drive(&mut it, &mut dq, pat, steps, b, |(k, v): &(&Key, &Val)| (Some(k.k), Some(k.id), Some(v.id)));
                    if forget { std::mem::forget(it); }
                }
                1 => {
                    let mut it = c.keys();
                    drive(&mut it, &mut dq, pat, steps, b, |k: &&Key| (Some(k.k), Some(k.id), None));
                    if forget { std::mem::forget(it); }
                }
                _ => {
                    let mut it = c.values();
                    drive(&mut it, &mut dq, pat, steps, b, |v: &&Val| (None, None, Some(v.id)));
                    if forget { std::mem::forget(it); }
                }
            }
            vassert!([C12, C19, C17], fp(&c, n + 1).same(&f0), "a borrowing iterator changed the cache");
            vassert!([C20], unsafe { HASHES } == 0, "a traversal computed a key hash");
            check_state(&c, &st, &Exp::unchanged(&st), Want { evicting: false });
            inv(&c, n + 1);
            drop(c);
            check_drops(n, &[]);
        }
        3 => {
            {
                let mut d = c.drain();
                drive(&mut d, &mut dq, pat, steps, b, |(k, v): &(Key, Val)| (Some(k.k), Some(k.id), Some(v.id)));
                if forget {
                    std::mem::forget(d);
                } else {
                    drop(d);
                }
            }
            vassert!([C20], unsafe { HASHES } == 0, "drain computed a key hash");
            if !forget {
                vassert!([C12, C02], c.len() == 0 && c.current_size() == 0 && c.is_empty(), "the cache is not empty with size 0 after a drain was dropped");
                vassert!([C12], c.iter().next().is_none() && c.peek_lru().is_none() && c.peek_mru().is_none(), "entries are still reachable after a drain was dropped");
            }
            // the cache remains valid and fully usable (after a forgotten drain: possibly with leaked entries gone or still listed, but coherent)
            inv(&c, n + 1);
            let h: usize = sym::any();
            sym::assume(h < (1 << 40));
            sym::assume(esz(h) <= st.max);
            let fresh = !(forget && c.contains(&0u8));
            let before = c.current_size();
            let before_len = c.len();
            let r = c.insert(Key::new(if fresh { 0 } else { n as u8 }, NEW_KID), Val { heap: h, id: NEW_VID });
            vassert!([C12, C17], matches!(r, Ok(None)), "insert into a drained cache did not behave as a fresh insertion");
            std::mem::forget(r);
            vassert!([C12, C17], c.peek(&(if fresh { 0u8 } else { n as u8 })).map(|v| v.id) == Some(NEW_VID), "an entry inserted after a drain is not found");
            if !forget {
                vassert!([C12, C02], c.len() == 1 && c.current_size() == esz(h), "a drained cache does not hold exactly the entry inserted afterwards");
            }
            inv(&c, n + 2);
            drop(c);
            if !forget {
                check_drops(n, &[NEW_VID, NEW_KID]);
            }
        }
        _ => {
            match kind {
                4 => {
                    let mut it = c.into_iter();
                    drive(&mut it, &mut dq, pat, steps, b, |(k, v): &(Key, Val)| (Some(k.k), Some(k.id), Some(v.id)));
                    if forget { std::mem::forget(it); } else { drop(it); }
                }
                5 => {
                    let mut it = c.into_keys();
                    drive(&mut it, &mut dq, pat, steps, b, |k: &Key| (Some(k.k), Some(k.id), None));
                    if forget { std::mem::forget(it); } else { drop(it); }
                }
                _ => {
                    let mut it = c.into_values();
                    drive(&mut it, &mut dq, pat, steps, b, |v: &Val| (None, None, Some(v.id)));
                    if forget { std::mem::forget(it); } else { drop(it); }
                }
            }
            vassert!([C20], unsafe { HASHES } == 0, "an owning traversal computed a key hash");
            if !forget {
                check_drops(n, &[]);
            }
        }
    }
    vend!();
}

/// Owning iterators over a cache whose VALUE type has no drop glue while the KEY
/// type has (a shortcut keyed on `needs_drop::<V>()` alone must not skip the keys).
/// kind: 3 drain, 4 into_iter, 5 into_keys, 6 into_values.
pub fn h_iter_plain_value(n: usize, kind: u8) {
    let mut c: LruCache<Key, u32, TabBuild> = LruCache::with_capacity_and_hasher(usize::MAX, 7, TabBuild { tab: tab_of(6) });
    let mut i = 0;
    while i < n {
        let e = UnhingedEntry::new(Key::new(i as u8, 8 + i as u8), 100 + i as u32);
        let entry = Entry::new(e, c.seal, c.seal.get().next);
        c.current_size += entry.size;
        raw_link(&mut c, entry);
        i += 1;
    }
    let (pat, steps) = sym_pattern(n);
    let mut dq = Deque { lo: 0, hi: n };
    let b = n + 2;
    match kind {
        3 => {
            let mut d = c.drain();
            drive(&mut d, &mut dq, pat, steps, b, |(k, v): &(Key, u32)| (Some(k.k), Some(k.id), Some((*v - 100) as u8)));
            drop(d);
            vassert!([C12], c.len() == 0 && c.current_size() == 0, "the cache is not empty after a drain was dropped");
            drop(c);
        }
        4 => {
            let mut it = c.into_iter();
            drive(&mut it, &mut dq, pat, steps, b, |(k, v): &(Key, u32)| (Some(k.k), Some(k.id), Some((*v - 100) as u8)));
            drop(it);
        }
        5 => {
            let mut it = c.into_keys();
            drive(&mut it, &mut dq, pat, steps, b, |k: &Key| (Some(k.k), Some(k.id), None));
            drop(it);
        }
        _ => {
            let mut it = c.into_values();
            drive(&mut it, &mut dq, pat, steps, b, |v: &u32| (None, None, Some((*v - 100) as u8)));
            drop(it);
        }
    }
    vblock!([C06, C12], {
        let mut i = 0;
        while i < n {
            vcheck!(drops(8 + i as u8) == 1, "[C06 C12 ] a key not consumed from an owning iterator was not dropped exactly once (plain-data values)");
            i += 1;
        }
    });
    vend!();
}

const CAP_IT: usize = 7;


harnesses! {
    iter_n3 [7] => h_iter(3, 0, false, tab_of(6)); //@ q=C12,C19,C05,C20,C07 to=600
    keys_n3 [7] => h_iter(3, 1, false, tab_of(6)); //@ q=C12,C19 t=C20 to=600
    values_n3 [7] => h_iter(3, 2, false, tab_of(6)); //@ q=C12,C19 t=C20 to=600
    drain_n3 [7] => h_iter(3, 3, false, tab_of(6)); //@ q=C12,C06,C02,C07,C20 t=C01 to=900
    into_iter_n3 [7] => h_iter(3, 4, false, tab_of(6)); //@ q=C12,C06,C20 t=C07 to=600
    into_keys_n3 [7] => h_iter(3, 5, false, tab_of(6)); //@ q=C12,C06 t=C07,C20 to=600
    into_values_n3 [7] => h_iter(3, 6, false, tab_of(6)); //@ q=C12,C06 t=C07,C20 to=600
    plainv_drain_n3 [7] => h_iter_plain_value(3, 3); //@ q=C12,C06 to=600
    plainv_into_iter_n3 [7] => h_iter_plain_value(3, 4); //@ q=C12,C06 to=600
    plainv_into_keys_n2 [6] => h_iter_plain_value(2, 5); //@ q=C12,C06 to=600
    plainv_into_values_n2 [6] => h_iter_plain_value(2, 6); //@ q=C12,C06 to=600
    iter_n0 [4] => h_iter(0, 0, false, tab_of(6)); //@ q=C12 to=600
    drain_n0 [4] => h_iter(0, 3, false, tab_of(6)); //@ q=C12 to=600
    into_iter_n0 [4] => h_iter(0, 4, false, tab_of(6)); //@ q=C12 to=600
    iter_n1 [5] => h_iter(1, 0, false, tab_of(6)); //@ q=C12 to=600
    drain_n1 [5] => h_iter(1, 3, false, tab_of(6)); //@ q=C12,C06 to=600
    into_values_n1 [5] => h_iter(1, 6, false, tab_of(6)); //@ q=C12 to=600
    iter_n4 [8] => h_iter(4, 0, false, tab_of(6)); //@ t=C12,C19 to=900
    drain_n4 [8] => h_iter(4, 3, false, tab_of(0)); //@ t=C12,C06 to=900
    into_iter_n4 [8] => h_iter(4, 4, false, tab_of(6)); //@ t=C12,C06 to=900
    forget_iter_n3 [7] => h_iter(3, 0, true, tab_of(6)); //@ q=C17 to=600
    forget_keys_n2 [6] => h_iter(2, 1, true, tab_of(6)); //@ t=C17 to=600
    forget_values_n2 [6] => h_iter(2, 2, true, tab_of(6)); //@ t=C17 to=600
    forget_drain_n3 [7] => h_iter(3, 3, true, tab_of(6)); //@ q=C17,C06 to=900
    forget_drain_n1 [5] => h_iter(1, 3, true, tab_of(6)); //@ q=C17 to=600
    forget_into_iter_n3 [7] => h_iter(3, 4, true, tab_of(6)); //@ q=C17 to=600
    forget_into_keys_n3 [7] => h_iter(3, 5, true, tab_of(6)); //@ q=C17 to=600
    forget_into_values_n3 [7] => h_iter(3, 6, true, tab_of(6)); //@ q=C17 to=600
}
