//! Shape-concrete harnesses around table reallocation (C13, C07, C04, C05,
//! C06, C14, C20): the number of entries and the table size are concrete, the
//! recency order (one symbolic touch), the bucket placement (model
//! nondeterminism), tombstones, sizes and the operation's argument are
//! symbolic.
use super::*;

/// Builds `n` entries in a table created with capacity `cap`, with symbolic
/// placement/tombstone choices, then touches a symbolic key so that the list
/// order differs from the bucket order. Returns the expectation describing
/// the resulting order.
/// `tfix >= 0`: the touched key is concrete (one query per key).
fn build_shaped(n: usize, cap: usize, tab: [u8; 8], limit_slack: usize, nd: bool) -> (C, St, Exp) {
    build_shaped_t(n, cap, tab, limit_slack, nd, -1)
}
fn build_shaped_t(n: usize, cap: usize, tab: [u8; 8], limit_slack: usize, nd: bool, tfix: i8) -> (C, St, Exp) {
    if nd {
        tm::nondet(true, true);
    }
    // Sizes are concrete here (distinct small values): reallocation does not
    // depend on them, and keeping them concrete keeps the shape of the
    // structure the only symbolic thing. The limit leaves `limit_slack` room.
    let heaps: [usize; NMAX] = [5, 6, 7, 9, 11, 13, 17];
    let mut sz = [0usize; NMAX];
    let mut sum = 0usize;
    let mut i = 0;
    while i < n {
        sz[i] = esz(heaps[i]);
        sum += sz[i];
        i += 1;
    }
    let st = St { n, heaps, sz, sum, max: sum + limit_slack };
    let mut c = build(n, &st.heaps, st.max, tab, cap);
    let mut exp = Exp::unchanged(&st);
    if n > 0 {
        let t = if tfix >= 0 { tfix as u8 } else { sym_key(n as u8) };
        c.touch(&t);
        exp.alive[t as usize] = false;
        exp.tail = Some(Ent { k: t, kid: 8 + t, vid: t, heap: st.heaps[t as usize] });
    }
    unsafe {
        HASHES = 0;
    }
    (c, st, exp)
}

/// After a capacity operation: structure coherent, then keep using the
/// pointers (C07): remove the LRU entry and promote another one.
fn use_after(c: &mut C, n: usize) {
    inv(c, n + 2);
    vblock!([C07, C06], {
        let before = c.len();
        let r = c.remove_lru();
        vcheck!(r.is_some() == (before > 0), "[C07 C13 ] remove_lru after a reallocation does not find the LRU entry");
        drop(r);
        inv(c, n + 2);
    });
}

/// which: 0 reserve, 1 try_reserve, 2 shrink_to, 3 shrink_to_fit
pub fn h_capacity(n: usize, cap: usize, tab: [u8; 8], which: u8, nd: bool) {
    h_capacity_t(n, cap, tab, which, nd, -1)
}
pub fn h_capacity_t(n: usize, cap: usize, tab: [u8; 8], which: u8, nd: bool, tfix: i8) {
    h_capacity_ta(n, cap, tab, which, nd, tfix, -1, -1)
}
/// `argfix >= 0`: concrete argument; `failfix`: -1 symbolic, 0 no injected failure, 1 injected allocator refusal.
pub fn h_capacity_ta(n: usize, cap: usize, tab: [u8; 8], which: u8, nd: bool, tfix: i8, argfix: i64, failfix: i8) {
    let (mut c, st, exp) = build_shaped_t(n, cap, tab, 0, nd, tfix);
    let cap0 = c.capacity();
    let len = c.len();
    let tables0 = tm::tables_allocated();
    #[cfg(any(vp_all, C13))]
    let f0 = fp(&c, n + 1);
    let arg: usize = if argfix >= 0 { argfix as usize } else { sym::any() };
    match which {
        0 => {
            // bound of the table model: at most 7 entries
            sym::assume(arg <= 7 - len);
            c.reserve(arg);
            vassert!([C13], c.capacity() >= len + arg, "reserve left capacity below len + additional");
            vcover!(if argfix < 0 || argfix as usize + len > cap0, c.capacity() > cap0, "reserve: reallocated");
            vcover!(if argfix < 0, c.capacity() == cap0, "reserve: capacity sufficed");
        }
        1 => {
            // Either the request fits the table model (<= 7 entries) or it is so large that
            // the real hashbrown refuses it as well (the native replay must see the same outcome).
            sym::assume(arg <= 7 - len || arg >= (1usize << 60));
            let fail: bool = if failfix >= 0 { failfix == 1 } else { sym::any() };
            if fail {
                tm::fail_next_alloc();
            }
            let r = c.try_reserve(arg);
            tm::clear_fail();
            match &r {
                Ok(()) => {
                    vassert!([C13], len.checked_add(arg).map_or(false, |need| c.capacity() >= need), "try_reserve returned Ok but capacity is below len + additional (or the sum overflows)");
                }
                Err(e) => {
                    vassert!([C13], fp(&c, n + 1).same(&f0), "a failing try_reserve changed the cache");
                    vassert!([C13], c.capacity() == cap0, "a failing try_reserve changed the capacity");
                    if len.checked_add(arg).is_none() {
                        vassert!([C13], matches!(e, hashbrown::TryReserveError::CapacityOverflow), "try_reserve with len + additional overflowing did not report CapacityOverflow");
                    }
                    vassert!([C13], len.checked_add(arg).map_or(true, |need| need > cap0), "try_reserve failed although the capacity already sufficed");
                }
            }
            vcover!(if failfix != 1 && (argfix < 0 || (argfix as usize) < 8), r.is_ok() && c.capacity() > cap0, "try_reserve: reallocated");
            vcover!(if failfix != 0, matches!(r, Err(hashbrown::TryReserveError::AllocError { .. })), "try_reserve: allocator refusal");
            vcover!(if argfix < 0, matches!(r, Err(hashbrown::TryReserveError::CapacityOverflow)), "try_reserve: capacity overflow");
        }
        2 => {
            // requests beyond the table model (> 7) are outside the bound
            sym::assume(arg <= 7);
            c.shrink_to(arg);
            let floor = if len > arg { len } else { arg };
            vassert!([C13], c.capacity() <= cap0, "shrink_to raised the capacity");
            vassert!([C13], cap0 < floor || c.capacity() >= floor, "shrink_to left capacity below max(len, min_capacity)");
            vcover!(if cap0 > 3, c.capacity() < cap0, "shrink_to: shrank");
            vcover!(if cap0 < 7, arg > cap0, "shrink_to: min_capacity above the current capacity");
        }
        _ => {
            c.shrink_to_fit();
            vassert!([C13], c.capacity() <= cap0, "shrink_to_fit raised the capacity");
            vassert!([C13], c.capacity() >= len, "shrink_to_fit left capacity below len");
            vcover!(c.capacity() < cap0, "shrink_to_fit: shrank");
        }
    }
    let hashes = unsafe { HASHES };
    vassert!([C20], hashes <= 2 + len, "a capacity operation hashed more than once per held entry (+2)");
    // transparency: contents, order, sizes unchanged
    check_state(&c, &st, &exp, Want { evicting: false });
    use_after(&mut c, n);
    drop(c);
    check_drops(n, &[]);
    vend!();
}

/// shrink_to / shrink_to_fit on a table that holds tombstones: `capacity()`
/// (= items + growth_left) is then smaller than what the bucket count allows,
/// and a rebuild "down" to max(len, min_capacity) can round up above it.
/// The table model admits a tombstone on every erase (solver's choice); the real
/// hashbrown only produces them in tables of >= 16 buckets, so the native
/// replay additionally searches for such a state at that scale (same
/// operation, same assertion) when the small scenario does not show it.
pub fn h_shrink_tomb(n: usize, cap: usize, tab: [u8; 8], fit: bool, r: usize) {
    tm::nondet(false, true);
    let (mut c, st, _exp) = build_shaped_t(n, cap, tab, 0, false, 0);
    // r removals (concrete count), each of which may leave a tombstone (solver's choice)
    let mut i = 0;
    while i < r {
        drop(c.remove_lru());
        i += 1;
    }
    let cap0 = c.capacity();
    let len = c.len();
    let arg: usize = if fit { 0 } else { sym::any() };
    if !fit {
        sym::assume(arg <= 7);
    }
    vcover!(cap0 < cap && cap0 > len, "shrink with tombstones: capacity() below the table's full capacity");
    if fit {
        c.shrink_to_fit();
    } else {
        c.shrink_to(arg);
    }
    let floor = if len > arg { len } else { arg };
    vassert!([C13], c.capacity() <= cap0, "shrink_to / shrink_to_fit raised the capacity (table with tombstones)");
    vassert!([C13], cap0 < floor || c.capacity() >= floor, "shrink_to / shrink_to_fit left capacity below max(len, min_capacity)");
    vassert!([C13, C02], c.len() == len, "shrink changed len()");
    inv(&c, n + 1);
    #[cfg(not(kani))]
    tomb_witness(fit, arg);
    drop(c);
    vend!();
}

/// Native only: look for a real-hashbrown state whose capacity() is reduced by
/// tombstones and apply the same operation and the same assertion to it.
#[cfg(not(kani))]
fn tomb_witness(fit: bool, arg: usize) {
    for &n in &[14usize, 28, 56] {
        for seed in 0..400u64 {
            let mut c: LruCache<u64, u64> = LruCache::with_capacity(usize::MAX, n);
            let full = c.capacity();
            for i in 0..full as u64 {
                c.insert(i.wrapping_mul(seed * 2 + 1), i).unwrap();
            }
            let keep = 1 + (seed as usize % 6);
            let mut i = 0u64;
            while c.len() > keep {
                c.remove(&i.wrapping_mul(seed * 2 + 1));
                i += 1;
            }
            let cap0 = c.capacity();
            let len = c.len();
            if fit {
                c.shrink_to_fit();
            } else {
                c.shrink_to(arg);
            }
            let floor = if len > arg { len } else { arg };
            if c.capacity() > cap0 {
                eprintln!("witness: table built with_capacity({}), seed {}, len {}: capacity {} -> {}", n, seed, len, cap0, c.capacity());
            }
            vassert!([C13], c.capacity() <= cap0, "shrink_to / shrink_to_fit raised the capacity (table with tombstones)");
            vassert!([C13], cap0 < floor || c.capacity() >= floor, "shrink_to / shrink_to_fit left capacity below max(len, min_capacity)");
        }
    }
}

/// An insertion that has to grow the table (n entries fill a table of capacity `cap`).
pub fn h_grow_insert(n: usize, cap: usize, tab: [u8; 8], nd: bool) {
    h_grow_insert_t(n, cap, tab, nd, -1)
}
pub fn h_grow_insert_t(n: usize, cap: usize, tab: [u8; 8], nd: bool, tfix: i8) {
    let (mut c, st, exp0) = build_shaped_t(n, cap, tab, ES0 + (1 << 20), nd, tfix);
    let cap0 = c.capacity();
    let len = c.len();
    let tables0 = tm::tables_allocated();
    // concrete size: with a symbolic one the eviction loop in front of the insertion
    // does not fold and the nested reallocation loops explode (measured: > 20 min)
    let h: usize = 11;
    let r = c.insert(Key::new(n as u8, NEW_KID), Val { heap: h, id: NEW_VID });
    let hashes = unsafe { HASHES };
    vassert!([C04, C13], matches!(r, Ok(None)), "a fresh insertion that grows the table did not succeed");
    drop(r);
    let grew = c.capacity() != cap0;
    vcover!(grew, "insert: table grew");
    vcover!(if nd, !grew, "insert: no growth (a tombstone was reused)");
    if grew {
        let want = tm_round(if 2 * cap0 > 1 { 2 * cap0 } else { 1 });
        vassert!([C13], cap0 == len, "the table grew although it was not full");
        vassert!([C13], c.capacity() == want, "automatic growth did not go to the smallest table size holding twice the current entries");
        if ON_MODEL {
            // trigger for the native churn witness (the request is not observable through the public API)
            vassert!([C13], tm::last_request() == (if 2 * len > 1 { 2 * len } else { 1 }), "automatic growth requested something other than the table size for twice the current entries");
        }
        vassert!([C20], hashes <= 2 + len, "a growing insertion hashed more than once per held entry (+2)");
    } else {
        vassert!([C20], hashes <= 2, "an insertion without growth computed more than two key hashes");
    }
    // contents: everything kept in order, the new entry most-recently-used.
    // exp0 has the touched entry as tail; fold it into a 'keys in order' check by hand.
    vblock!([C04, C05, C13, C02, C03], {
        let mut it = c.iter();
        let mut j = 0;
        while j < n {
            if exp0.alive[j] {
                match it.next() {
                    Some((k, v)) => {
                        vcheck!(k.k == j as u8 && v.id == j as u8 && v.heap == st.heaps[j], "[C04 C05 C13 C03 ] a growing insertion lost, reordered or changed an entry");
                    }
                    None => {
                        vcheck!(false, "[C04 C05 C13 C03 ] a growing insertion lost an entry");
                    }
                }
            }
            j += 1;
        }
        if let Some(t) = exp0.tail {
            vcheck!(it.next().map(|(k, v)| (k.k, v.id)) == Some((t.k, t.vid)), "[C04 C05 C13 C03 ] a growing insertion lost or reordered the previously most-recently-used entry");
        }
        vcheck!(it.next().map(|(k, v)| (k.k, v.id)) == Some((n as u8, NEW_VID)), "[C04 C05 C13 ] the inserted entry is not the most-recently-used one after growth");
        vcheck!(it.next().is_none(), "[C04 C05 C13 ] extra entries after a growing insertion");
        vcheck!(c.len() == n + 1 && c.current_size() == st.sum + esz(h), "[C02 C13 ] len / current_size wrong after a growing insertion");
        let mut k = 0u8;
        while (k as usize) < n + 2 {
            vcheck!(c.contains(&k) == ((k as usize) <= n), "[C04 C13 ] lookup after a growing insertion misses an entry or finds an absent key");
            k += 1;
        }
    });
    vassert!([C01], c.current_size() <= c.max_size(), "current_size() exceeds max_size() after a growing insertion");
    use_after(&mut c, n + 1);
    drop(c);
    check_drops(n, &[NEW_VID, NEW_KID]);
    #[cfg(not(kani))]
    churn_witness();
    vend!();
}

/// An insertion into a FULL table whose limit forces the eviction of exactly the LRU entry first.
/// With solver-chosen tombstones/placement the evicted bucket may stay unusable, so that the
/// insertion finds the table without growth left. The hashing budget (C20): without growth of the
/// capacity at most 2 + 1 hashes, with growth additionally one per held entry.
/// `script`: the table's behaviour is scripted (concrete choices) - with solver-chosen
/// choices the reallocation path does not fold (measured: > 20 min).
pub fn h_insert_evict_tomb(n: usize, cap: usize, tab: [u8; 8], script: &[u8], expect_grow: bool) {
    let (mut c, st, exp0) = build_shaped_t(n, cap, tab, 0, false, 0);
    // scripted table behaviour from here on: [tombstone bit of the eviction, slot of the insertion, slots after a rebuild ...]
    tm::script(script, true, true);
    // after touching key 0 the LRU entry is key 1; the new entry has exactly its size
    let lru = if n >= 2 { 1 } else { 0 };
    let cap0 = c.capacity();
    let len0 = c.len();
    let r = c.insert(Key::new(n as u8, NEW_KID), Val { heap: st.heaps[lru], id: NEW_VID });
    let hashes = unsafe { HASHES };
    vassert!([C04, C20], matches!(r, Ok(None)), "a fresh insertion that evicts the LRU entry did not succeed");
    drop(r);
    vassert!([C03, C20], c.len() == len0 && !c.contains(&(lru as u8)), "the insertion did not evict exactly the LRU entry");
    let grew = c.capacity() > cap0;
    vcover!(grew == expect_grow, "evicting insert: the scripted scenario (growth / no growth) is the one reached");
    if grew {
        vassert!([C20], hashes <= 2 + 1 + len0, "a growing insertion computed more than 2 + evicted + held key hashes");
    } else {
        vassert!([C20], hashes <= 2 + 1, "an insertion that does not grow the table computed more than two key hashes plus one per evicted entry");
    }
    inv(&c, n + 1);
    std::mem::forget(c);
    #[cfg(not(kani))]
    evict_rehash_witness();
    vend!();
}

/// Native only (replay): the same situation at a scale where the real hashbrown leaves tombstones:
/// 28 entries fill a 32-bucket table exactly (identity hasher), the limit is exhausted, and one more
/// insertion evicts the LRU entry from inside a run of occupied buckets.
#[cfg(not(kani))]
fn evict_rehash_witness() {
    static mut COUNT: usize = 0;
    #[derive(Clone, Default)]
    struct IdBuild;
    #[derive(Default)]
    struct IdHasher(u64);
    impl Hasher for IdHasher {
        fn finish(&self) -> u64 {
            self.0
        }
        fn write(&mut self, b: &[u8]) {
            for (i, x) in b.iter().enumerate().take(8) {
                self.0 |= (*x as u64) << (8 * i);
            }
        }
        fn write_u64(&mut self, v: u64) {
            self.0 = v;
        }
    }
    impl BuildHasher for IdBuild {
        type Hasher = IdHasher;
        fn build_hasher(&self) -> IdHasher {
            unsafe { COUNT += 1; }
            IdHasher(0)
        }
    }
    let unit = entry_size(&0u64, &0u64);
    let mut c: LruCache<u64, u64, IdBuild> = LruCache::with_capacity_and_hasher(28 * unit, 28, IdBuild);
    let mut i = 0u64;
    while i < 28 {
        c.insert(i, i).unwrap();
        i += 1;
    }
    let cap0 = c.capacity();
    let len0 = c.len();
    unsafe { COUNT = 0; }
    c.insert(28, 28).unwrap();
    let hashes = unsafe { COUNT };
    let grew = c.capacity() > cap0;
    eprintln!("witness: evicting insert at len {} capacity {} -> {}: {} hashes", len0, cap0, c.capacity(), hashes);
    if grew {
        vassert!([C20], hashes <= 2 + 1 + len0, "a growing insertion computed more than 2 + evicted + held key hashes");
    } else {
        vassert!([C20], hashes <= 2 + 1, "an insertion that does not grow the table computed more than two key hashes plus one per evicted entry");
    }
    // the same for a lowered limit and a growing mutate: neither rebuilds the table
    let mut d: LruCache<u64, u64, IdBuild> = LruCache::with_capacity_and_hasher(28 * unit, 28, IdBuild);
    let mut i = 0u64;
    while i < 28 {
        d.insert(i, i).unwrap();
        i += 1;
    }
    unsafe { COUNT = 0; }
    d.set_max_size(27 * unit);
    let hashes = unsafe { COUNT };
    vassert!([C20], hashes <= 2 + 1, "set_max_size evicting one entry computed more than two key hashes plus one per evicted entry");
}

/// Native only (replay): hashing work of clone() on caches whose table is exactly full
/// (len == capacity: 3, 7, 14, 28 entries) and on partially filled ones.
#[cfg(not(kani))]
fn clone_hash_witness() {
    static mut COUNT: usize = 0;
    #[derive(Clone, Default)]
    struct CntBuild;
    impl BuildHasher for CntBuild {
        type Hasher = std::collections::hash_map::DefaultHasher;
        fn build_hasher(&self) -> Self::Hasher {
            unsafe { COUNT += 1; }
            std::collections::hash_map::DefaultHasher::new()
        }
    }
    for &n in &[3usize, 7, 14, 28, 5, 20] {
        let mut c: LruCache<u64, u64, CntBuild> = LruCache::with_hasher(usize::MAX, CntBuild);
        let mut i = 0u64;
        while (i as usize) < n {
            c.insert(i, i).unwrap();
            i += 1;
        }
        unsafe { COUNT = 0; }
        let d = c.clone();
        let hashes = unsafe { COUNT };
        if hashes > 2 + n {
            eprintln!("witness: clone of {} entries (capacity {}) computed {} hashes", n, c.capacity(), hashes);
        }
        vassert!([C20], hashes <= 2 + n, "clone hashed more than once per held entry (+2)");
        drop(d);
    }
}

/// Native only (replay): the churn bound at a scale where the real hashbrown
/// produces tombstones - a sliding window of 20 consecutive keys under an
/// identity hasher, explicit removals and eviction-driven churn; capacity must
/// stay below max(4 * peak len, 16).
#[cfg(not(kani))]
fn churn_witness() {
    #[derive(Clone, Default)]
    struct IdBuild;
    #[derive(Default)]
    struct IdHasher(u64);
    impl Hasher for IdHasher {
        fn finish(&self) -> u64 {
            self.0
        }
        fn write(&mut self, b: &[u8]) {
            for (i, x) in b.iter().enumerate().take(8) {
                self.0 |= (*x as u64) << (8 * i);
            }
        }
        fn write_u64(&mut self, v: u64) {
            self.0 = v;
        }
    }
    impl BuildHasher for IdBuild {
        type Hasher = IdHasher;
        fn build_hasher(&self) -> IdHasher {
            IdHasher(0)
        }
    }
    let mut c: LruCache<u64, u64, IdBuild> = LruCache::with_hasher(usize::MAX, IdBuild);
    let mut peak = 0usize;
    let mut i = 0u64;
    while i < 4000 {
        c.insert(i, i).unwrap();
        if i >= 20 {
            c.remove(&(i - 20));
        }
        if c.len() > peak {
            peak = c.len();
        }
        let bound = if 4 * peak > 16 { 4 * peak } else { 16 };
        if c.capacity() >= bound {
            eprintln!("witness: churn step {}, len {}, peak {}, capacity {}", i, c.len(), peak, c.capacity());
        }
        vassert!([C13], c.capacity() < bound, "automatic growth took the capacity to max(4 x peak len, 16) or beyond under churn at constant length");
        i += 1;
    }
}

/// hashbrown's rounding of a requested capacity to the capacity of the table allocated.
pub fn tm_round(req: usize) -> usize {
    if req == 0 {
        return 0;
    }
    let buckets = if req < 4 { 4 } else if req < 8 { 8 } else { (req * 8 / 7).next_power_of_two() };
    if buckets <= 8 { buckets - 1 } else { buckets / 8 * 7 }
}

/// with_capacity(n) takes n fresh insertions without the capacity changing.
pub fn h_with_capacity(n: usize, tab: [u8; 8], nd: bool) {
    if nd {
        tm::nondet(true, true);
    }
    let heaps: [usize; 8] = [5, 6, 7, 9, 11, 13, 17, 19];
    let mut c: C = LruCache::with_capacity_and_hasher(usize::MAX, n, TabBuild { tab });
    let cap0 = c.capacity();
    let tables0 = tm::tables_allocated();
    vassert!([C13], cap0 >= n, "with_capacity(n) gives a capacity below n");
    let mut i = 0;
    while i < n {
        let r = c.insert(Key::new(i as u8, 8 + i as u8), Val { heap: heaps[i], id: i as u8 });
        vassert!([C13, C04], matches!(r, Ok(None)), "fresh insertion failed");
        drop(r);
        vassert!([C13], c.capacity() == cap0, "the capacity changed during the first n insertions into a cache created with_capacity(n)");
        i += 1;
    }
    vassert!([C13, C02], c.len() == n, "len() is not n after n fresh insertions");
    inv(&c, n + 1);
    drop(c);
    vend!();
}

/// clone: equal, independent, source untouched (C14, C19, C06, C20).
/// op: operation applied afterwards to `side` (0 = clone, 1 = source):
/// 0 none, 1 insert new key, 2 remove key, 3 get key, 4 set_max_size, 5 clear, 6 mutate, 7 drop it
pub fn h_clone(n: usize, cap: usize, tab: [u8; 8], op: u8, side: u8, nd: bool) {
    h_clone_s(n, cap, tab, op, side, nd, ES0 + (1 << 20), -1)
}
/// `slack`: free bytes under the limit (0 = the cache is exactly full).
pub fn h_clone_s(n: usize, cap: usize, tab: [u8; 8], op: u8, side: u8, nd: bool, slack: usize, tfix: i8) {
    h_clone_sk(n, cap, tab, op, side, nd, slack, tfix, -1)
}
/// `kop >= 0`: concrete key for the follow-up operation.
pub fn h_clone_sk(n: usize, cap: usize, tab: [u8; 8], op: u8, side: u8, nd: bool, slack: usize, tfix: i8, kop: i8) {
    let (c, st, exp) = build_shaped_t(n, cap, tab, slack, nd, tfix);
    let f0 = fp(&c, n + 1);
    let tables0 = tm::tables_allocated();
    let d = c.clone();
    let hashes = unsafe { HASHES };
    vassert!([C20], hashes <= 2 + n, "clone hashed more than once per held entry (+2)");
    if ON_MODEL {
        // trigger for the native witness below: a second table allocation inside clone() means the
        // entries copied so far are hashed again (not visible in the count at this size)
        vassert!([C20], tm::tables_allocated() <= tables0 + 1, "clone allocated more than one table (the entries copied so far are rehashed)");
    }
    #[cfg(not(kani))]
    clone_hash_witness();
    vassert!([C14, C19], fp(&c, n + 1).same(&f0), "clone altered the source");
    vassert!([C14], d.len() == c.len() && d.current_size() == c.current_size() && d.max_size() == c.max_size(), "the clone's len / current_size / max_size differ from the source's");
    vassert!([C14, C13], d.capacity() >= c.capacity(), "the clone's capacity is below the source's");
    // same entries in the same order; own copies (ghost ids + 16)
    vblock!([C14, C05, C04], {
        let mut a = c.iter();
        let mut b = d.iter();
        let mut j = 0;
        while j < n + 1 {
            match (a.next(), b.next()) {
                (Some((ka, va)), Some((kb, vb))) => {
                    vcheck!(ka.k == kb.k && (va.heap & !1) == vb.heap, "[C14 C05 C04 ] the clone's entries or their order differ from the source's");
                    vcheck!(kb.id == ka.id + 16 && vb.id == va.id + 16, "[C14 ] the clone does not own its own copies of the keys and values");
                    vcheck!(!std::ptr::eq(ka, kb), "[C14 ] the clone shares an entry with the source");
                }
                (None, None) => {}
                _ => {
                    vcheck!(false, "[C14 C05 C04 ] the clone holds a different number of entries than the source");
                }
            }
            j += 1;
        }
        // backward as well
        let mut a = c.iter();
        let mut b = d.iter();
        let mut j = 0;
        while j < n + 1 {
            match (a.next_back(), b.next_back()) {
                (Some((ka, _)), Some((kb, _))) => {
                    vcheck!(ka.k == kb.k, "[C14 C05 ] the clone's reverse order differs from the source's");
                }
                (None, None) => {}
                _ => {
                    vcheck!(false, "[C14 C05 ] the clone's reverse traversal has a different length");
                }
            }
            j += 1;
        }
    });
    check_state(&c, &st, &exp, Want { evicting: false });
    inv(&c, n + 1);
    inv_nosize(&d, n + 1);
    // independence: one operation on one side leaves the other side untouched
    let (mut x, y) = if side == 0 { (d, c) } else { (c, d) };
    let fy = fp(&y, n + 1);
    let k = if kop >= 0 { kop as u8 } else { sym_key(n as u8 + 1) };
    match op {
        0 => {}
        1 => {
            let h: usize = sym::any();
            sym::assume(h < (1 << 20));
            let r = x.insert(Key::new(k, NEW_KID), Val { heap: h, id: NEW_VID });
            drop(r);
        }
        2 => {
            drop(x.remove(&k));
        }
        3 => {
            let _ = x.get(&k);
        }
        4 => {
            let m: usize = sym::any();
            x.set_max_size(m);
        }
        5 => {
            x.clear();
        }
        6 => {
            let nh: usize = sym::any();
            sym::assume(nh < (1 << 20));
            let r = x.mutate(&k, |v: &mut Val| { v.heap = nh; });
            drop(r);
        }
        _ => {}
    }
    inv_nosize(&x, n + 2);
    drop(x);
    vassert!([C14], fp(&y, n + 1).same(&fy), "an operation on one cache (or dropping it) affected its clone / source");
    inv_nosize(&y, n + 1);
    // the survivor is fully intact: every key still found, order walkable both ways
    vblock!([C14, C07], {
        let mut k = 0u8;
        while (k as usize) < n + 1 {
            vcheck!(y.contains(&k) == ((k as usize) < n), "[C14 C07 ] after the other cache was modified/dropped, a lookup on this one fails");
            k += 1;
        }
    });
    // Emptying the untouched side entry by entry: every removal lowers current_size by the size
    // recorded in the SOURCE for that entry (a clone copies the recorded sizes together with the
    // total), and the total ends at 0.
    let mut y = y;
    vblock!([C14, C02], {
        let mut j = 0;
        while j < n + 1 {
            let want: Option<usize> = if j < n {
                if exp.alive[j] { Some(st.sz[j]) } else { None }
            } else {
                exp.tail.map(|t| st.sz[t.k as usize])
            };
            if let Some(w) = want {
                let before = y.current_size();
                let r = y.remove_lru();
                vcheck!(r.is_some() && before >= w && y.current_size() == before - w, "[C14 C02 ] removing an entry from a cache (or its clone) does not lower current_size by the size accounted for it");
                drop(r);
            }
            j += 1;
        }
        vcheck!(y.len() == 0 && y.current_size() == 0, "[C14 C02 ] a cache (or its clone) emptied entry by entry does not end with current_size 0");
    });
    drop(y);
    // every original and every cloned key/value dropped exactly once
    vblock!([C06, C14], {
        let mut i = 0;
        while i < n {
            vcheck!(drops(i as u8) == 1 && drops(8 + i as u8) == 1 && drops(16 + i as u8) == 1 && drops(24 + i as u8) == 1, "[C06 C14 ] an original or cloned key/value was not dropped exactly once");
            i += 1;
        }
    });
    vend!();
}

// `nd` = model nondeterminism (any bucket placement, tombstones) - costly, thorough tier.
harnesses! {
    reserve_n3_c3_t0 [6] => h_capacity_t(3, 3, tab_of(6), 0, false, 0); //@ q=C13,C20 t=C07,C02,C04,C05,C06 to=900
    reserve_n3_c3_t1 [6] => h_capacity_t(3, 3, tab_of(6), 0, false, 1); //@ q=C13 t=C07,C04,C05,C06,C20,C02 to=900
    reserve_n3_c3_sym [6] => h_capacity(3, 3, tab_of(6), 0, false); //@ t=C13 to=1200
    reserve_n0_c0 [4] => h_capacity(0, 0, tab_of(6), 0, false); //@ q=C13 t=C07 to=600
    reserve_n2_c3_collide_t0 [5] => h_capacity_t(2, 3, tab_of(0), 0, false, 0); //@ q=C13 t=C04,C07 to=900
    reserve_n3_c3_nd [6] => h_capacity(3, 3, tab_of(6), 0, true); // not registered: solver-chosen placement + tombstones on a reallocation runs out of memory (12 GB) - measured
    try_reserve_n3_c3_t0 [6] => h_capacity_t(3, 3, tab_of(6), 1, false, 0); //@ q=C13 t=C07,C04,C05,C06,C20 to=900
    try_reserve_n3_c3_t2 [6] => h_capacity_t(3, 3, tab_of(6), 1, false, 2); //@ q=C13 t=C07,C04,C05,C06,C20 to=900
    try_reserve_n3_c3_sym [6] => h_capacity(3, 3, tab_of(6), 1, false); //@ t=C13 to=1200
    try_reserve_n2_c3_t0 [5] => h_capacity_t(2, 3, tab_of(6), 1, false, 0); //@ q=C13 t=C07,C06 to=900
    reserve_n3_c3_t0_a4 [6] => h_capacity_ta(3, 3, tab_of(6), 0, false, 0, 4, 0); //@ q=C07,C06,C04,C05 to=900
    reserve_n2_c3_collide_t0_a3 [5] => h_capacity_ta(2, 3, tab_of(0), 0, false, 0, 3, 0); //@ q=C04 to=900
    reserve_n3_c3_t1_a1 [6] => h_capacity_ta(3, 3, tab_of(6), 0, false, 1, 1, 0); //@ q=C07 to=900
    try_reserve_n3_c3_t1_fail [6] => h_capacity_ta(3, 3, tab_of(6), 1, false, 1, 4, 1); //@ q=C07,C06,C04,C13 to=900
    try_reserve_n3_c3_t0_ok [6] => h_capacity_ta(3, 3, tab_of(6), 1, false, 0, 2, 0); //@ q=C07 to=900
    shrink_to_n2_c7_t1_a3 [5] => h_capacity_ta(2, 7, tab_of(6), 2, false, 1, 3, 0); //@ q=C07,C06 to=900
    try_reserve_n0_c3 [4] => h_capacity(0, 3, tab_of(6), 1, false); //@ q=C13 t=C07 to=600
    try_reserve_n0_c3_fail [4] => h_capacity_ta(0, 3, tab_of(6), 1, false, -1, 5, 1); //@ q=C13 to=600
    try_reserve_n0_c0 [4] => h_capacity(0, 0, tab_of(6), 1, false); //@ q=C13 to=600
    shrink_to_n2_c7_t0 [5] => h_capacity_t(2, 7, tab_of(6), 2, false, 0); //@ q=C13 t=C07,C04,C05,C06,C20 to=900
    shrink_to_n2_c7_t1 [5] => h_capacity_t(2, 7, tab_of(6), 2, false, 1); //@ q=C13 t=C07,C04,C05,C06,C20 to=900
    shrink_to_n2_c7_sym [5] => h_capacity(2, 7, tab_of(6), 2, false); //@ t=C13 to=1200
    shrink_to_n3_c7 [6] => h_capacity(3, 7, tab_of(6), 2, false); //@ t=C13 to=1200
    shrink_to_fit_n2_c7 [5] => h_capacity(2, 7, tab_of(6), 3, false); //@ q=C13,C07,C20 t=C04,C05,C06 to=1200
    shrink_to_n1_c3_t0 [4] => h_capacity_t(1, 3, tab_of(6), 2, false, 0); //@ q=C13 t=C07 to=900
    shrink_to_fit_n0_c3 [4] => h_capacity(0, 3, tab_of(6), 3, false); //@ q=C13 t=C07 to=600
    shrink_to_fit_tomb_n2_c3 [5] => h_shrink_tomb(2, 3, tab_of(6), true, 1); //@ q=C13 to=900
    shrink_to_tomb_n3_c7 [6] => h_shrink_tomb(3, 7, tab_of(6), false, 2); //@ t=C13 to=1800
    shrink_to_fit_n2_c7_nd [5] => h_capacity(2, 7, tab_of(6), 3, true); //@ t=C13 to=2400
    grow_insert_n3_c3_t0 [6] => h_grow_insert_t(3, 3, tab_of(6), false, 0); //@ q=C13,C07,C04,C05,C06,C20,C01,C02 to=1200
    grow_insert_n3_c3_t1 [6] => h_grow_insert_t(3, 3, tab_of(6), false, 1); //@ q=C13,C07,C05,C06 t=C04,C20,C01,C02 to=1200
    grow_insert_n3_c3_t2 [6] => h_grow_insert_t(3, 3, tab_of(6), false, 2); //@ q=C13,C07 t=C04,C05,C06,C20,C01,C02 to=1200
    grow_insert_n0_c0 [4] => h_grow_insert(0, 0, tab_of(6), false); //@ q=C13,C07,C20 to=600
    grow_insert_n3_c3_collide_t1 [6] => h_grow_insert_t(3, 3, tab_of(0), false, 1); //@ q=C04 t=C13,C07 to=1200
    grow_insert_n3_c3_nd [6] => h_grow_insert(3, 3, tab_of(6), true); // not registered: does not finish in 40 min with solver-chosen placement - measured; scripted variants insert_evict_* cover the tombstone scenarios
    insert_evict_tomb_n3_c3 [6] => h_insert_evict_tomb(3, 3, tab_of(6), &[1, 3, 0, 1, 2], true); //@ q=C20 t=C03,C04 to=900
    insert_evict_notomb_n3_c3 [6] => h_insert_evict_tomb(3, 3, tab_of(6), &[0, 1], false); //@ q=C20 to=900
    insert_evict_reuse_tomb_n3_c3 [6] => h_insert_evict_tomb(3, 3, tab_of(6), &[1, 1], false); //@ q=C20 to=900
    with_capacity_n3 [5] => h_with_capacity(3, tab_of(6), false); //@ q=C13 to=900
    with_capacity_n4 [6] => h_with_capacity(4, tab_of(6), false); //@ t=C13 to=1200
    clone_n3_c3 [6] => h_clone(3, 3, tab_of(6), 0, 0, false); //@ q=C19,C06,C20,C05 t=C14,C07,C13 to=2400
    clone_n3_c3_t0 [6] => h_clone_sk(3, 3, tab_of(6), 0, 0, false, ES0 + (1 << 20), 0, -1); //@ q=C14 to=900
    clone_n3_c3_t1 [6] => h_clone_sk(3, 3, tab_of(6), 0, 0, false, ES0 + (1 << 20), 1, -1); //@ q=C14 to=900
    clone_n3_drop_src [6] => h_clone(3, 3, tab_of(6), 7, 1, false); //@ q=C07,C06 t=C14 to=2400
    clone_n3_drop_src_t2 [6] => h_clone_sk(3, 3, tab_of(6), 7, 1, false, ES0 + (1 << 20), 2, -1); //@ q=C14 to=900
    clone_n2_insert_clone [5] => h_clone(2, 3, tab_of(6), 1, 0, false); // not registered: symbolic key + symbolic size insert on the clone does not finish in 40 min - measured; see clone_n2_insert_clone_k2
    clone_n2_remove_src [5] => h_clone(2, 3, tab_of(6), 2, 1, false); //@ t=C14,C06,C07 to=2400
    clone_n2_get_clone [5] => h_clone(2, 3, tab_of(6), 3, 0, false); //@ t=C14 to=2400
    clone_n2_get_clone_mru [5] => h_clone_sk(2, 3, tab_of(6), 3, 0, false, 64, 0, 0); //@ q=C14 to=900
    clone_n2_get_clone_lru [5] => h_clone_sk(2, 3, tab_of(6), 3, 0, false, 64, 0, 1); //@ q=C14 to=900
    clone_n2_remove_mru_clone [5] => h_clone_sk(2, 3, tab_of(6), 2, 0, false, 64, 0, 0); //@ q=C14 to=900
    clone_n2_remove_src_k1 [5] => h_clone_sk(2, 3, tab_of(6), 2, 1, false, 64, 0, 1); //@ q=C14,C06,C07 to=900
    clone_n2_insert_clone_k2 [5] => h_clone_sk(2, 3, tab_of(6), 1, 0, false, ES0 + (1 << 20), 0, 2); // not registered: a symbolic-size insert on the clone does not finish in 30 min - measured
    clone_n2_mutate_clone_k0 [5] => h_clone_sk(2, 3, tab_of(6), 6, 0, false, ES0 + (1 << 20), 0, 0); //@ t=C14 to=1800
    clone_n2_setmax_src [5] => h_clone(2, 3, tab_of(6), 4, 1, false); //@ t=C14 to=1200
    clone_n2_clear_clone [5] => h_clone(2, 3, tab_of(6), 5, 0, false); //@ t=C14,C06 to=1200
    clone_n2_mutate_clone [5] => h_clone(2, 3, tab_of(6), 6, 0, false); // not registered: does not finish in 20 min with a symbolic key - measured; see clone_n2_mutate_clone_k0
    clone_n3_c3_nd [6] => h_clone(3, 3, tab_of(6), 0, 0, true); // not registered: runs out of memory (12 GB) with solver-chosen placement - measured
    clone_n3_c3_exactly_full [6] => h_clone_s(3, 3, tab_of(6), 0, 0, false, 0, -1); //@ q=C19,C01 t=C14 to=2400
    clone_n3_c3_exactly_full_t1 [6] => h_clone_s(3, 3, tab_of(6), 0, 0, false, 0, 1); //@ q=C14 to=900
    clone_n2_c7_spare [5] => h_clone_s(2, 7, tab_of(6), 0, 0, false, 64, 0); //@ q=C14,C13 to=900
    clone_n7_c7_t3 [10] => h_clone_s(7, 7, tab_of(6), 0, 0, false, 64, 3); //@ q=C20 t=C14,C19 to=1500 cfg=model16
    clone_n0_small_limit [4] => h_clone_s(0, 0, tab_of(6), 0, 0, false, 5, -1); //@ q=C14 to=600
    clone_n0_c3_small_limit [4] => h_clone_s(0, 3, tab_of(6), 0, 0, false, 6, -1); //@ q=C14 to=600
    clone_n0 [4] => h_clone(0, 0, tab_of(6), 1, 0, false); //@ q=C14 to=600
}
