#!/bin/bash
# usage: mutant_test.sh <Cxx> <A|B|...> [tier] [extra props...]
# Confirms a seeded change produced in /tmp/wt-<Cxx> (mut<X>.diff + tests/demo_<X>.rs), stores it under
# /verif/seeded/<Cxx>-<X>/ and runs the property's check against the mutated worktree (VERIF_REPO).
P=$1; X=$2; TIER=${3:-quick}
R=${MUT_ROUND:-1}
if [ "$R" = "1" ]; then WT=/tmp/wt-$P; ID=$P-$X; else WT=/tmp/w$R-$P; ID=$P-$X$R; fi
OUT=/verif/seeded/$ID
export CARGO_NET_OFFLINE=true CARGO_TARGET_DIR=$WT/target
cd $WT || exit 9
git checkout -q -- src
base=$(cargo test --offline --no-fail-fast --test demo_$X 2>&1 | grep -E "^test result" | head -1)
git apply mut$X.diff || { echo "$ID: patch does not apply"; exit 9; }
full=$(cargo test --offline --no-fail-fast 2>&1 | grep -E "^test result|Running|Doc-tests" )
echo "$full" > /tmp/mutfull-$ID.txt
demo_fail=$(cargo test --offline --no-fail-fast --test demo_$X 2>&1 | grep -E "^test result" | head -1)
# every pre-existing target must pass: count failed in all but the demo targets
other_failed=$(cargo test --offline --no-fail-fast 2>&1 | awk '/Running/ {cur=$0} /Doc-tests/ {cur=$0} /^test result/ {if (cur !~ /demo_/) print $0}' | grep -c "FAILED")
mkdir -p $OUT
cp mut$X.diff $OUT/patch.diff
cp tests/demo_$X.rs $OUT/demo.rs
s=$(date +%s)
(cd ${VERIF_DIR:-/verif} && VERIF_REPO=$WT VERIF_NO_EVIDENCE=1 ./check $P $TIER > /tmp/mutcheck-$ID.txt 2>&1); rc=$?
e=$(date +%s)
git checkout -q -- src
viol=$(grep -c "^VIOLATION property=$P" /tmp/mutcheck-$ID.txt)
echo "$ID tier=$TIER baseline_demo=[$base] mutant_demo=[$demo_fail] preexisting_failed_targets=$other_failed check_rc=$rc violation_lines=$viol secs=$((e-s))" | tee -a /var/tmp/mut-results.txt | tee -a /verif/seeded/results.txt
