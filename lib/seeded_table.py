#!/usr/bin/env python3
"""Prints the markdown table of seeded changes for DESIGN.md 9.6 from seeded/*/meta.json."""
import json
from pathlib import Path
V = Path(__file__).resolve().parent.parent
print("| id | change | needs | result of `./check <prop> quick` on the changed tree |")
print("|---|---|---|---|")
for d in sorted((V / "seeded").glob("C*-*")):
    m = json.loads((d / "meta.json").read_text())
    runs = m.get("runs", [])
    if runs:
        r = runs[-1]
        res = ("VIOLATION (exit 1) in %d s" % r["seconds"]) if r["check_exit"] == 1 and r["violation_lines"] else ("exit %d, no VIOLATION line (%d s)" % (r["check_exit"], r["seconds"]))
        if len(runs) > 1:
            first = runs[0]
            if not (first["check_exit"] == 1 and first["violation_lines"]):
                res += "; first run (before strengthening): exit %d" % first["check_exit"]
        if r.get("note"):
            res += " " + r["note"]
    else:
        res = "not run yet"
    print("| %s | %s | %s | %s |" % (m["id"], m["change"], m["needs_to_manifest"], res))
