#!/usr/bin/env python3
"""Runner for the lru-mem verification checks (see /verif/DESIGN.md section 3).

  runner.py <Cxx> quick|thorough          decide one property
  runner.py <Cxx> --replay <file>         re-run a stored counterexample natively
  runner.py --list                        print the harness registry

Per run: copy /repo's working tree to a scratch directory, inject the harness
module, patch in the hashbrown contract model, run `cargo kani` per harness in
parallel, parse CBMC's per-check results, replay counterexamples natively
against the real hashbrown, write evidence/<id>.json.

Exit status: 0 = property held on everything explored (or only known findings
failed); 1 = violation, reproduced natively (prints VIOLATION line);
2 = inconclusive (build error, timeout, out of memory, unwinding bound too
small, unsatisfied cover goal, cut violated, counterexample not reproduced).
"""
import concurrent.futures as cf
import fnmatch
import json
import os
import re
import resource
import shutil
import subprocess
import sys
import tempfile
import time
from pathlib import Path

VERIF = Path(__file__).resolve().parent.parent
REPO = Path(os.environ.get("VERIF_REPO", "/repo"))
HARNESS_DIR = VERIF / "harness"
MODEL_DIR = VERIF / "model" / "hashbrown"
SCRATCH_BASE = Path(os.environ.get("VERIF_SCRATCH", "/var/tmp"))
NCPU = os.cpu_count() or 4
MEM_CAP_GB = int(os.environ.get("VERIF_MEM_GB", "12"))

INJECT = (
    '\n#[cfg(any(kani, lru_mem_verif_replay))]\n'
    '#[path = "%s/mod.rs"]\nmod verif_harness;\n' % HARNESS_DIR
)

ASSUMPTIONS = [
    "A1 honest sizes: every entry_size and the sum over the contents are representable in usize (mutate additionally: contents plus the growth of the mutated value)",
    "A2 Hash/Eq/Borrow of the key are consistent and pure; sizes change only inside mutate",
    "A3 hashbrown RawTable honours the contract model /verif/model/hashbrown (validated differentially against hashbrown 0.14.5 by model/validate)",
    "A4 single-threaded, no unwinding (Kani aborts at panics)",
    "A5 allocation does not fail except where injected",
    "bounds: tables of at most 8 buckets (7 entries); entries built directly per harness name (nK = K entries before the step); Kani models the dev profile",
]


def log(*a):
    print(*a, flush=True)


# ---------------------------------------------------------------------------
# registry: parsed from the `//@` annotations in harness/*.rs
# ---------------------------------------------------------------------------
class Harness:
    def __init__(self, name, module, unwind, quick, thorough, timeout, kind, line):
        self.name, self.module, self.unwind = name, module, unwind
        self.quick, self.thorough, self.timeout, self.kind = quick, thorough, timeout, kind
        self.line = line
        self.solver = "minisat"

    @property
    def path(self):
        return "verif_harness::%s::%s" % (self.module, self.name)


def load_registry():
    reg = []
    pat = re.compile(r"^\s*(\w+)\s*\[(\d+)\]\s*=>\s*(.*?);\s*//@\s*(.*)$")
    for f in sorted(HARNESS_DIR.glob("*.rs")):
        if f.name == "mod.rs":
            continue
        for ln in f.read_text().splitlines():
            m = pat.match(ln)
            if not m:
                continue
            name, unwind, body, meta = m.group(1), int(m.group(2)), m.group(3), m.group(4)
            kv = dict(x.split("=", 1) for x in meta.split() if "=" in x)
            q = [p for p in kv.get("q", "").split(",") if p]
            t = [p for p in kv.get("t", "").split(",") if p]
            h = Harness(name, f.stem, unwind, q, q + t, int(kv.get("to", "900")), kv.get("kind", "step"), body)
            h.solver = kv.get("solver", "minisat")
            h.args = [a for a in kv.get("args", "").split(",") if a]
            h.recbound = int(kv.get("recbound", "0"))
            h.cfg = [c for c in kv.get("cfg", "").split(",") if c]
            reg.append(h)
    return reg


# ---------------------------------------------------------------------------
# scratch copy
# ---------------------------------------------------------------------------
def copy_repo(dst):
    dst.mkdir(parents=True)
    subprocess.run(
        ["rsync", "-a", "--exclude", "/target", "--exclude", "/.git", str(REPO) + "/", str(dst) + "/"], check=True
    )
    (dst / ".cargo").mkdir(exist_ok=True)
    (dst / ".cargo" / "config.toml").write_text("[net]\noffline = true\n")


def prepare_kani_crate(scratch):
    crate = scratch / "crate"
    copy_repo(crate)
    lib = crate / "src" / "lib.rs"
    lib.write_text(lib.read_text() + INJECT)
    man = crate / "Cargo.toml"
    txt = man.read_text()
    txt += '\n[patch.crates-io]\nhashbrown = { path = "%s" }\n' % MODEL_DIR
    if "[workspace]" not in txt:
        txt += "\n[workspace]\n"
    if "[lints" not in txt:
        txt += '\n[lints.rust]\nunexpected_cfgs = "allow"\n'
    man.write_text(txt)
    return crate


def prepare_replay_crate(scratch):
    """lru-mem + injected harness against the REAL hashbrown, plus a runner binary."""
    crate = scratch / "replay-crate"
    if crate.exists():
        return scratch / "replay-runner"
    copy_repo(crate)
    lib = crate / "src" / "lib.rs"
    lib.write_text(lib.read_text() + INJECT.replace("\nmod verif_harness;", "\npub mod verif_harness;"))
    man = crate / "Cargo.toml"
    txt = man.read_text()
    if "[workspace]" not in txt:
        txt += "\n[workspace]\n"
    if "[lints" not in txt:
        txt += '\n[lints.rust]\nunexpected_cfgs = "allow"\n'
    man.write_text(txt)
    run = scratch / "replay-runner"
    (run / "src").mkdir(parents=True)
    (run / "Cargo.toml").write_text(
        '[package]\nname = "replay-runner"\nversion = "0.0.0"\nedition = "2021"\n\n'
        '[dependencies]\nlru-mem = { path = "%s" }\n\n[workspace]\n\n[profile.release]\ndebug-assertions = false\noverflow-checks = false\n' % crate
    )
    shutil.copy(VERIF / "lib" / "replay_main.rs", run / "src" / "main.rs")
    for cand in (crate / "Cargo.lock", Path("/repo/Cargo.lock")):
        if cand.exists():
            shutil.copy(cand, run / "Cargo.lock")
            break
    (run / ".cargo").mkdir()
    (run / ".cargo" / "config.toml").write_text("[net]\noffline = true\n")
    return run


# ---------------------------------------------------------------------------
# running Kani
# ---------------------------------------------------------------------------
def _limits():
    cap = MEM_CAP_GB * (1 << 30)
    resource.setrlimit(resource.RLIMIT_AS, (cap, cap))
    os.setsid()


def _limits_big():
    # counterexample extraction runs alone (no slicing, full trace): allow most of the machine
    cap = int(os.environ.get("VERIF_CEX_MEM_GB", "44")) * (1 << 30)
    resource.setrlimit(resource.RLIMIT_AS, (cap, cap))
    os.setsid()


CHECK_RE = re.compile(
    r"^Check (\d+): (.+)\n\s+- Status: (\w+)\n\s+- Description: \"(.*)\"\n\s+- Location: (.*)$", re.M
)


def parse_kani(out):
    res = {"checks": [], "verdict": None, "time": None}
    for blk in re.split(r"^(?=Check \d+: )", out, flags=re.M)[1:]:
        m = re.match(r"Check (\d+): (.*)\n", blk)
        st = re.search(r"^\s+- Status: (\w+)", blk, re.M)
        de = re.search(r"^\s+- Description: \"(.*?)\"\s*\n(?:\s+- Location:|\s*$)", blk, re.M | re.S)
        lo = re.search(r"^\s+- Location: (.*)$", blk, re.M)
        if not (m and st):
            continue
        res["checks"].append({
            "n": int(m.group(1)), "name": m.group(2), "status": st.group(1),
            "desc": de.group(1) if de else "", "loc": lo.group(1) if lo else "",
        })
    m = re.search(r"^VERIFICATION:- (\w+)", out, re.M)
    if m:
        res["verdict"] = m.group(1)
    m = re.search(r"^Verification Time: ([\d.]+)s", out, re.M)
    if m:
        res["time"] = float(m.group(1))
    res["symex_s"] = sum(float(x) for x in re.findall(r"^Runtime Symex: ([\d.eE+-]+)s", out, re.M))
    res["solver_s"] = sum(float(x) for x in re.findall(r"^Runtime decision procedure: ([\d.eE+-]+)s", out, re.M))
    res["sat_calls"] = len(re.findall(r"^SAT checker: instance is", out, re.M))
    vc = [(int(a), int(b)) for a, b in re.findall(r"^(\d+) variables, (\d+) clauses", out, re.M)]
    res["variables"] = max([v for v, _ in vc], default=0)
    res["clauses"] = max([c for _, c in vc], default=0)
    m = re.search(r"Generated (\d+) VCC\(s\), (\d+) remaining after simplification", out)
    if m:
        res["vccs"] = (int(m.group(1)), int(m.group(2)))
    return res


def run_kani(crate, scratch, h, prop, extra_args=(), tag="", extra_cfg=(), timeout_factor=1, big=False):
    """Runs one harness; `solver=portfolio` races minisat against cadical and
    takes the first run that reaches a verdict."""
    solver = os.environ.get("VERIF_SOLVER", h.solver)
    solvers = ["minisat", "cadical"] if solver == "portfolio" else [solver]
    env = dict(os.environ)
    tier_cfg = ["vp_full_probe"] if os.environ.get("VERIF_TIER_EFFECTIVE") == "thorough" else []
    env["RUSTFLAGS"] = " ".join(["--cfg", prop] + ["--cfg %s" % c for c in list(extra_cfg) + tier_cfg + list(getattr(h, "cfg", []))] + ["-A", "warnings"])
    env["CARGO_NET_OFFLINE"] = "true"
    env["VERIF_TAB"] = str(int(os.environ.get("VERIF_SEED", "0") or 0) % 15)
    timeout = h.timeout * timeout_factor * (3 if os.environ.get("VERIF_SLOW") else 1)
    if os.environ.get("VERIF_TIER_EFFECTIVE") == "thorough":
        # the thorough tier is not meant for every change: generous per-harness limit
        timeout = max(timeout, 1500) * 2
    procs = []
    t0 = time.time()
    for sv in solvers:
        tgt = scratch / "tgt" / (h.name + tag + "-" + sv)
        logf = scratch / ("log-%s%s-%s.txt" % (h.name, tag, sv))
        cmd = ["cargo", "kani", "--harness", h.path, "--exact", "--verbose", "--solver", sv, "--target-dir", str(tgt)] + list(h.args) + list(extra_args)
        e2 = dict(env)
        e2["CARGO_TARGET_DIR"] = str(tgt)
        fh = open(logf, "w")
        p = subprocess.Popen(cmd, cwd=crate, env=e2, stdout=fh, stderr=subprocess.STDOUT, text=True, preexec_fn=_limits_big if big else _limits)
        procs.append((sv, p, tgt, logf, fh))
    winner = None
    timed_out = False
    while winner is None:
        alive = False
        for sv, p, tgt, logf, fh in procs:
            rc = p.poll()
            if rc is None:
                alive = True
                continue
            out = logf.read_text(errors="replace")
            done = re.search(r"^VERIFICATION:- ", out, re.M) and re.search(r"^Check 1: ", out, re.M)
            if done or len(procs) == 1:
                winner = (sv, p, out)
                break
            if all(q.poll() is not None for _, q, _, _, _ in procs):
                winner = (sv, p, out)  # every solver ended without a complete result
                break
        if winner or not alive:
            break
        if time.time() - t0 > timeout:
            timed_out = True
            break
        time.sleep(0.5)
    if winner is None:
        # all finished without verdict, or timeout: report the first one's output
        sv, p, tgt, logf, fh = procs[0]
        winner = (sv, p, None)
    for sv, p, tgt, logf, fh in procs:
        if p.poll() is None:
            try:
                os.killpg(p.pid, 9)
            except ProcessLookupError:
                pass
            p.wait()
        fh.close()
    out = winner[2]
    if out is None:
        out = procs[0][3].read_text(errors="replace")
    wall = time.time() - t0
    name_map = {}
    if h.recbound:
        for sv, p, tgt, logf, fh in procs:
            for f in tgt.glob("**/*pretty_name_map.json"):
                try:
                    for mangled, pretty in json.loads(f.read_text()).items():
                        if pretty:
                            name_map.setdefault(pretty, mangled)
                except Exception:
                    pass
    for sv, p, tgt, logf, fh in procs:
        shutil.rmtree(tgt, ignore_errors=True)
        if not os.environ.get("VERIF_KEEP"):
            try:
                logf.unlink()
            except OSError:
                pass
    res = parse_kani(out)
    res.update({"harness": h.name, "wall": wall, "timed_out": timed_out, "rc": winner[1].returncode, "raw": out, "solver": winner[0], "name_map": name_map})
    return res


def run_harness(crate, scratch, h, prop):
    """One harness, including the second pass for harnesses with a recursion
    bound (`recbound=`): pass 1 collects the crate's own functions for which
    CBMC reports "Unwinding recursion"; pass 2 bounds exactly those at
    `recbound` while loops keep the global bound, so that a recursion whose
    depth grows with the element count fails its recursion unwinding assertion."""
    r = run_kani(crate, scratch, h, prop)
    if not h.recbound or r["verdict"] is None:
        return r
    names = set(re.findall(r"^Unwinding recursion (.+) iteration \d+", r["raw"], re.M))
    own = []
    for pretty in sorted(names):
        mangled = r["name_map"].get(pretty)
        # the crate's own functions only (v0 mangling embeds the crate name); not the harness
        if mangled and "7lru_mem" in mangled and "verif_harness" not in mangled.split("7lru_mem", 1)[1][:20]:
            own.append(mangled)
    r["recursive_functions"] = own
    if not own:
        return r
    uw = ",".join("%s:%d" % (n, h.recbound) for n in own)
    r2 = run_kani(crate, scratch, h, prop, ["-Z", "unstable-options", "--cbmc-args", "--unwindset", uw], tag="-rec")
    r2["recursive_functions"] = own
    r2["wall"] += r["wall"]
    return r2


# ---------------------------------------------------------------------------
# classification of one harness result for one property
# ---------------------------------------------------------------------------
MEMSAFE_OWNERS = {"C07", "C17"}


def tags_of(desc):
    m = re.match(r"\[([A-Z0-9 ]+)\]", desc)
    return m.group(1).split() if m else []


def classify(res, prop, h):
    """-> dict(status=ok|fail|inconclusive, failures=[...], notes=[...])"""
    notes, failures = [], []
    if res["timed_out"]:
        return {"status": "inconclusive", "failures": [], "notes": ["timeout after %ds" % h.timeout]}
    if res["verdict"] is not None and not res["checks"]:
        res["verdict"] = None
    if res["verdict"] is None:
        tail = "\n".join(res["raw"].splitlines()[-15:])
        kind = "harness build error" if "error" in res["raw"] and "Checking harness" not in res["raw"] else "solver did not finish (out of memory or crash)"
        return {"status": "inconclusive", "failures": [], "notes": [kind + ":\n" + tail]}
    inconclusive = False
    end_seen = False
    masking = []
    for c in res["checks"]:
        st = c["status"]
        if ".cover." in c["name"] or st in ("SATISFIED", "UNSATISFIABLE"):
            if "END-OF-HARNESS" in c["desc"]:
                end_seen = end_seen or st == "SATISFIED"
            elif st == "UNSATISFIABLE":
                inconclusive = True
                notes.append("cover goal not satisfied (%s): %s" % (st, c["desc"]))
            continue
        if st in ("SUCCESS", "UNREACHABLE"):
            continue
        if st == "ERROR":
            if not any("CBMC reported an error" in n for n in notes):
                notes.append("CBMC reported an error (out of memory or solver crash): checks left undetermined")
            inconclusive = True
            continue
        # FAILURE / UNDETERMINED
        tg = tags_of(c["desc"])
        if h.recbound and "recursion" in c["desc"] and st == "FAILURE":
            if prop == "C08":
                failures.append(dict(c, cls="recursion"))
            else:
                notes.append("recursion depth grows with the input (decided by C08): %s" % c["loc"])
            continue
        if "unwinding assertion" in c["desc"] or "recursion unwinding" in c["desc"]:
            if st == "FAILURE":
                inconclusive = True
                notes.append("unwinding bound too small: %s @ %s" % (c["desc"], c["loc"]))
            continue
        if st == "UNDETERMINED":
            continue
        if "CUT" in tg:
            inconclusive = True
            notes.append("growth cut violated: %s" % c["desc"])
            continue
        if tg:
            if prop in tg:
                failures.append(dict(c, cls="tagged"))
            else:
                notes.append("assertion of other properties failed (%s): %s" % (",".join(tg), c["desc"]))
            continue
        # untagged: CBMC built-in checks (pointer safety, overflow, panics ...)
        if re.search(r"verif/harness/\w+\.rs:\d+:\d+ in function verif_harness::", c["loc"]) and "dereference" not in c["desc"]:
            # arithmetic / panic inside the harness's own code: a harness defect, never a verdict
            inconclusive = True
            notes.append("built-in check failed inside the harness code (harness defect): %s @ %s" % (c["desc"], c["loc"]))
            continue
        in_crate = re.match(r"src/\S+\.rs:\d+", c["loc"]) is not None
        is_ptr = any(w in c["desc"] for w in ("dereference", "pointer", "free ", "double free", "misaligned", "null reference"))
        if in_crate and not is_ptr and not c["desc"].startswith("unreachable"):
            # an arithmetic overflow, unwrap on None, explicit panic ... inside the crate's own code: the
            # operation under test panics on a valid input, which contradicts every property that
            # specifies its result (confirmed by the native replay in the dev profile)
            failures.append(dict(c, cls="panic"))
            continue
        if prop in MEMSAFE_OWNERS:
            failures.append(dict(c, cls="builtin"))
        else:
            # Kani cuts the path at a failing built-in check, so assertions of this property
            # further down the same path were never evaluated: keep it as a candidate and let
            # the native replay (which runs on) decide whether this property's assertions fail
            masking.append(dict(c, cls="masking"))
            notes.append("built-in check failed (decided by C07; may mask this property's assertions): %s @ %s" % (c["desc"], c["loc"]))
    if failures:
        return {"status": "fail", "failures": failures, "notes": notes}
    if masking:
        return {"status": "fail", "failures": masking[:3], "notes": notes}
    if not end_seen and res["verdict"] == "SUCCESSFUL":
        inconclusive = True
        notes.append("vacuity: the end of the harness is not reachable (END-OF-HARNESS cover not satisfied)")
    if inconclusive:
        return {"status": "inconclusive", "failures": [], "notes": notes}
    if res["verdict"] != "SUCCESSFUL" and not notes:
        return {"status": "inconclusive", "failures": [], "notes": ["VERIFICATION FAILED without an attributable check"]}
    return {"status": "ok", "failures": [], "notes": notes}


# ---------------------------------------------------------------------------
# counterexample extraction + native replay
# ---------------------------------------------------------------------------
def extract_values(out):
    """Concrete-playback value lists printed by Kani, one per failing check:
    [(kind, description, vals)]."""
    tests = []
    for blk in out.split("Concrete playback unit test for")[1:]:
        m = re.search(r"/// Check for `(\w+)`: \"(.*?)\"\s*\n", blk, re.S)
        b = re.search(r"let concrete_vals: Vec<Vec<u8>> = vec!\[(.*?)\];", blk, re.S)
        if not b:
            continue
        vals = []
        for v in re.finditer(r"vec!\[([\d,\s]*)\]", b.group(1)):
            vals.append([int(x) for x in v.group(1).replace(" ", "").split(",") if x != ""])
        tests.append((m.group(1) if m else "?", m.group(2) if m else "", vals))
    return tests


def native_replay(scratch, prop, harness_name, vals, profiles=("dev", "release")):
    """Runs the harness natively with the recorded values against real hashbrown.
    Returns list of (profile, rc, output)."""
    run = prepare_replay_crate(scratch)
    cex = scratch / ("cex-%s-%s.json" % (prop, harness_name.replace("#", "_")))
    cex.write_text(json.dumps({"harness": harness_name, "vals": vals}))
    outs = []
    for prof in profiles:
        env = dict(os.environ)
        env["RUSTFLAGS"] = "--cfg lru_mem_verif_replay --cfg %s -A warnings" % prop
        env["VERIF_TAB"] = str(int(os.environ.get("VERIF_SEED", "0") or 0) % 15)
        env["CARGO_NET_OFFLINE"] = "true"
        env["CARGO_TARGET_DIR"] = str(scratch / "replay-target")
        cmd = ["cargo", "run", "-q", "--offline"] + (["--release"] if prof == "release" else []) + ["--", str(cex)]
        try:
            p = subprocess.run(cmd, cwd=run, env=env, stdout=subprocess.PIPE, stderr=subprocess.STDOUT, text=True, timeout=600)
            outs.append((prof, p.returncode, p.stdout[-4000:]))
        except subprocess.TimeoutExpired:
            outs.append((prof, -999, "replay timed out (possible non-termination)"))
    return outs


def native_search(scratch, prop, harness_name, iters=400000):
    """Fallback when the trace-producing CBMC run does not fit into memory: CBMC has already
    decided that a counterexample exists; a boundary-biased pseudo-random search over the same
    harness (native, real hashbrown) looks for a concrete witness. -> (vals, message) or None."""
    run = prepare_replay_crate(scratch)
    env = dict(os.environ)
    env["RUSTFLAGS"] = "--cfg lru_mem_verif_replay --cfg %s -A warnings" % prop
    env["CARGO_NET_OFFLINE"] = "true"
    env["CARGO_TARGET_DIR"] = str(scratch / "replay-target")
    env["VERIF_TAB"] = str(int(os.environ.get("VERIF_SEED", "0") or 0) % 15)
    for seed in (1, 2, 3):
        try:
            p = subprocess.run(["cargo", "run", "-q", "--offline", "--", "--search", harness_name, str(iters), str(seed)], cwd=run, env=env, stdout=subprocess.PIPE, stderr=subprocess.STDOUT, text=True, timeout=600)
        except subprocess.TimeoutExpired:
            continue
        out = p.stdout
        w = re.search(r"SEARCH-WITNESS (\[.*\])", out)
        m = re.search(r"VASSERT-FAILED (\[[A-Z0-9 ]+\].*)", out)
        if w and m and prop in tags_of(m.group(1)):
            return json.loads(w.group(1)), m.group(1)
        if w and "SEARCH-PANIC" in out:
            return json.loads(w.group(1)), "the operation panicked (native witness search)"
    return None


def miri_replay(scratch, prop, harness_name, vals):
    """Fallback for pointer-safety failures without a native symptom: the same
    replay under Miri (real hashbrown); Miri's 'Undefined Behavior' report confirms."""
    run = prepare_replay_crate(scratch)
    cex = scratch / ("cex-%s-%s.json" % (prop, harness_name.replace("#", "_")))
    env = dict(os.environ)
    env["RUSTFLAGS"] = "--cfg lru_mem_verif_replay --cfg %s -A warnings" % prop
    env["MIRIFLAGS"] = "-Zmiri-disable-isolation -Zmiri-ignore-leaks"
    env["CARGO_NET_OFFLINE"] = "true"
    env["CARGO_TARGET_DIR"] = str(scratch / "replay-target-miri")
    env["VERIF_TAB"] = str(int(os.environ.get("VERIF_SEED", "0") or 0) % 15)
    try:
        p = subprocess.run(["cargo", "+nightly", "miri", "run", "-q", "--offline", "--", str(cex)], cwd=run, env=env, stdout=subprocess.PIPE, stderr=subprocess.STDOUT, text=True, timeout=900)
        return [("miri", p.returncode, p.stdout[-4000:])]
    except subprocess.TimeoutExpired:
        return [("miri", -998, "miri replay timed out")]


def replay_reproduces(outs, prop, tagged_only=False):
    """A replay reproduces when the process reports a tagged assertion of this
    property, panics inside the crate (overflow, unwrap ...), or dies from a signal."""
    for prof, rc, out in outs:
        if rc == 3:
            continue  # REPLAY-MISMATCH
        if prof == "miri":
            m = re.search(r"error: Undefined Behavior: (.*)", out)
            if m:
                return True, prof, "Miri: Undefined Behavior: " + m.group(1)[:200]
            continue
        if "VASSERT-FAILED" in out:
            m = re.search(r"VASSERT-FAILED (\[[A-Z0-9 ]+\].*)", out)
            if m and prop in tags_of(m.group(1)):
                return True, prof, m.group(1)
            continue
        if tagged_only:
            continue
        if rc == -999:
            return True, prof, "non-termination"
        if rc != 0 and ("panicked at" in out or rc < 0 or rc >= 128):
            return True, prof, out.strip().splitlines()[-1] if out.strip() else "signal %d" % rc
    return False, None, None


# ---------------------------------------------------------------------------
# known findings
# ---------------------------------------------------------------------------
def load_findings():
    f = VERIF / "known-findings.txt"
    out = []
    if not f.exists():
        return out
    for ln in f.read_text().splitlines():
        ln = ln.strip()
        if not ln.startswith("finding:"):
            continue
        kv = dict(re.findall(r"(\w+)=(\"[^\"]*\"|\S+)", ln))
        out.append({k: v.strip('"') for k, v in kv.items()} | {"text": ln.split("--", 1)[-1].strip()})
    return out


def match_finding(findings, prop, harness, failure):
    for f in findings:
        if f.get("property") != prop:
            continue
        if not fnmatch.fnmatch(harness, f.get("harness", "*")):
            continue
        if "check" in f and not re.search(f["check"], failure["desc"] + " @ " + failure["loc"]):
            continue
        return f
    return None


# ---------------------------------------------------------------------------
# main per-property flow
# ---------------------------------------------------------------------------
def functions_encoded(results):
    fns = set()
    for r in results:
        for c in r["checks"]:
            m = re.search(r"^(src/\S+?):\d+:\d+ in function (.*)$", c["loc"])
            if m:
                fn = re.sub(r"::<[^>]*(?:<[^>]*>[^>]*)*>", "", m.group(2))
                fns.add("%s %s" % (m.group(1), fn))
    return sorted(fns)


def check_property(prop, tier, seed):
    t_start = time.time()
    reg = load_registry()
    sel = [h for h in reg if prop in (h.quick if tier == "quick" else h.thorough)]
    force = os.environ.get("VERIF_HARNESSES")
    if force:
        pats = force.split(",")
        sel = [h for h in reg if any(fnmatch.fnmatch(h.name, p) for p in pats)]
    only = os.environ.get("VERIF_ONLY")
    if only:
        sel = [h for h in sel if fnmatch.fnmatch(h.name, only)]
    if not sel:
        log("no harness registered for %s in tier %s" % (prop, tier))
        return 2
    scratch = Path(tempfile.mkdtemp(prefix="lru-verif-%s-" % prop, dir=SCRATCH_BASE))
    rc = 2
    try:
        rc = _check_property(prop, tier, seed, sel, scratch, t_start)
    finally:
        if not os.environ.get("VERIF_KEEP"):
            shutil.rmtree(scratch, ignore_errors=True)
    return rc


def validate_model(model16=False):
    """Differential validation of the hashbrown contract model against the real
    crate (native, a few seconds). Returns (ok, summary line)."""
    d = VERIF / "model" / "validate"
    env = dict(os.environ)
    env["CARGO_NET_OFFLINE"] = "true"
    env.pop("RUSTFLAGS", None)
    if model16:
        env["RUSTFLAGS"] = "--cfg model16"
        env["CARGO_TARGET_DIR"] = str(d / "target" / "m16")
    try:
        p = subprocess.run(["cargo", "run", "--release", "-q", "--offline", "--", "3"], cwd=d, env=env, stdout=subprocess.PIPE, stderr=subprocess.STDOUT, text=True, timeout=900)
    except subprocess.TimeoutExpired:
        return False, "model validation timed out"
    line = [l for l in p.stdout.splitlines() if l.startswith("MODEL-VALIDATION")]
    return p.returncode == 0 and bool(line), (line[0] if line else p.stdout[-400:])


MODEL_INFO = {"line": "not run"}


def _check_property(prop, tier, seed, sel, scratch, t_start):
    if any(h.module != "memsize" for h in sel):
        ok, line = validate_model()
        if ok and any(getattr(h, "cfg", []) for h in sel):
            ok, line2 = validate_model(model16=True)
            line = line + " | 16-bucket configuration: " + line2
        MODEL_INFO["line"] = line
        log("  stub validation: " + line)
        if not ok:
            log("INCONCLUSIVE: the hashbrown contract model disagrees with the real crate")
            return 2
    crate = prepare_kani_crate(scratch)
    findings = load_findings()
    workers = int(os.environ.get("VERIF_JOBS", str(min(NCPU, 16))))
    log("[%s/%s] %d harnesses, %d parallel, scratch %s" % (prop, tier, len(sel), workers, scratch))
    results = {}
    with cf.ThreadPoolExecutor(max_workers=workers) as ex:
        futs = {ex.submit(run_harness, crate, scratch, h, prop): h for h in sorted(sel, key=lambda h: -h.timeout)}
        for fu in cf.as_completed(futs):
            h = futs[fu]
            r = fu.result()
            results[h.name] = r
            cl = classify(r, prop, h)
            r["class"] = cl
            log("  %-34s %-12s wall %6.1fs solver %6.1fs (%s) checks %d" % (h.name, cl["status"], r["wall"], r["solver_s"], r.get("solver"), len(r["checks"])))
            for n in cl["notes"]:
                log("      note: " + n.splitlines()[0])

    violations, known, inconclusive = [], [], []
    also_failing = []
    for h in sorted(sel, key=lambda h: results[h.name]["wall"]):
        r = results[h.name]
        cl = r["class"]
        if cl["status"] == "inconclusive":
            inconclusive.append((h.name, cl["notes"]))
        elif cl["status"] == "fail":
            # known finding?
            remaining = []
            for f in cl["failures"]:
                kf = match_finding(findings, prop, h.name, f)
                if kf:
                    known.append((h.name, f, kf))
                else:
                    remaining.append(f)
            if not remaining:
                continue
            if violations and not os.environ.get("VERIF_REPLAY_ALL"):
                # one reproduced violation decides the run; further failing harnesses are listed only
                also_failing.append((h.name, remaining))
                continue
            # extract the counterexample and replay it natively
            log("  %s: %d failing check(s); extracting counterexample ..." % (h.name, len(remaining)))
            if all(f.get("cls") == "recursion" for f in remaining):
                # recursion depth grows with the element count: the native witness is the
                # same computation on millions of elements (stack exhaustion in the dev profile)
                tests = [None]
            else:
                # restrict the (unsliced, trace-producing) run to the failing properties: ~2x faster
                props = []
                # tagged assertions first; names with blanks (generic instantiations) do not survive
                # Kani's forwarding of --cbmc-args reliably
                cands = sorted(remaining, key=lambda f: 0 if f.get("cls") == "tagged" else 1)
                for f in [f for f in cands if " " not in f["name"]][:2]:
                    props += ["--property", f["name"]]
                r2 = {"raw": ""}
                if props:
                    r2 = run_kani(crate, scratch, h, prop, ["-Z", "concrete-playback", "--concrete-playback=print", "-Z", "unstable-options", "--cbmc-args"] + props, tag="-cex", extra_cfg=["vp_nocover"], timeout_factor=4, big=True)
                if not props:
                    r2 = run_kani(crate, scratch, h, prop, ["-Z", "concrete-playback", "--concrete-playback=print"], tag="-cex2", extra_cfg=["vp_nocover"], timeout_factor=4, big=True)
                tests = extract_values(r2["raw"])
                want = set(f["desc"] for f in remaining)
                tests = [t[2] for t in tests if t[1] in want] + [t[2] for t in tests if t[1] not in want and t[0] != "cover"]
            reproduced = None
            attempts = []
            for vals in tests[:6]:
                rname = h.name
                if vals is None:
                    rname = h.name + "#big"
                    outs = native_replay(scratch, prop, rname, [], profiles=("dev",))
                    vals = []
                else:
                    outs = native_replay(scratch, prop, h.name, vals)
                only_masking = all(f.get("cls") == "masking" for f in remaining)
                ok, prof, what = replay_reproduces(outs, prop, tagged_only=only_masking)
                if not ok and prop in MEMSAFE_OWNERS and any(f.get("cls") == "builtin" for f in remaining) and rname == h.name:
                    outs = outs + miri_replay(scratch, prop, h.name, vals)
                    ok, prof, what = replay_reproduces(outs, prop)
                attempts.append({"vals": vals, "outs": [(p, c, o[-1500:]) for p, c, o in outs]})
                if ok:
                    reproduced = (vals, prof, what, rname)
                    break
            if not reproduced and not tests:
                log("  %s: no trace could be produced (memory); native witness search ..." % h.name)
                found = native_search(scratch, prop, h.name)
                if found:
                    reproduced = (found[0], "dev", found[1] + " (witness found by the native search after CBMC reported the failure)", h.name)
            if reproduced:
                (VERIF / "replays").mkdir(exist_ok=True)
                path = VERIF / "replays" / ("%s-%s.json" % (prop, h.name))
                path.write_text(json.dumps({
                    "property": prop, "harness": reproduced[3], "vals": reproduced[0], "profile": reproduced[1],
                    "native_symptom": reproduced[2],
                    "cbmc_failures": [{"desc": f["desc"], "loc": f["loc"]} for f in remaining],
                    "harness_call": h.line,
                }, indent=1))
                violations.append((h.name, remaining, path, reproduced))
            else:
                why = "no counterexample values printed" if not tests else "native replay (real hashbrown, dev+release) did not reproduce"
                inconclusive.append((h.name, ["counterexample not reproduced: %s; failing: %s" % (why, "; ".join(f["desc"] for f in remaining))]))
                dbg = scratch.parent / ("lru-verif-nonrepro-%s-%s.json" % (prop, h.name))
                try:
                    dbg.write_text(json.dumps({"attempts": attempts, "failures": remaining}, indent=1))
                    log("      (details: %s)" % dbg)
                except Exception:
                    pass

    extra = {}
    if prop == "C13" and not os.environ.get("VERIF_HARNESSES"):
        # arithmetic lemma for the churn bound (z3, cross-checked with cvc5)
        try:
            p = subprocess.run(["/opt/veriftools/pyvenv/bin/python", str(VERIF / "smt" / "growth_bound.py")], stdout=subprocess.PIPE, stderr=subprocess.PIPE, text=True, timeout=600)
            lemma = json.loads(p.stdout.strip().splitlines()[-1]) if p.stdout.strip() else {"error": p.stderr[-300:]}
            lrc = p.returncode
        except Exception as e:  # noqa
            lemma, lrc = {"error": str(e)}, 2
        extra["growth_lemma"] = lemma
        log("  growth lemma (z3/cvc5): rc=%d %s" % (lrc, json.dumps(lemma.get("queries", lemma))[:300]))
        if lrc == 1:
            (VERIF / "replays").mkdir(exist_ok=True)
            path = VERIF / "replays" / "C13-growth-lemma.json"
            path.write_text(json.dumps(lemma, indent=1))
            violations.append(("growth_lemma", [{"desc": "hashbrown rounding of 2*len reaches max(4*len,16) or stays below 2*len", "loc": "smt/growth_bound.py"}], path, ([], "z3", "lemma counterexample confirmed by the concrete cross-check", "growth_lemma")))
        elif lrc != 0:
            inconclusive.append(("growth_lemma", ["SMT lemma inconclusive: %s" % json.dumps(lemma)[:300]]))
    write_evidence(prop, tier, seed, sel, results, violations, known, inconclusive, time.time() - t_start, extra)
    for name, f, kf in known:
        log("KNOWN-FINDING: property=%s %s [%s: %s]" % (prop, kf["text"], name, f["desc"]))
    for name, fails in also_failing:
        log("  also failing (not replayed): %s: %s" % (name, "; ".join(sorted(set(f["desc"] for f in fails)))))
    for name, fails, path, rep in violations:
        log("  violated in %s: %s" % (name, "; ".join(f["desc"] for f in fails)))
        log("  native replay (%s profile): %s" % (rep[1], rep[2]))
        log("VIOLATION property=%s replay=%s" % (prop, path))
    if violations:
        return 1
    if inconclusive:
        for name, notes in inconclusive:
            log("INCONCLUSIVE %s: %s" % (name, " | ".join(n.splitlines()[0] for n in notes)))
        return 2
    log("[%s/%s] held on everything explored (%.0fs)" % (prop, tier, time.time() - t_start))
    return 0


def write_evidence(prop, tier, seed, sel, results, violations, known, inconclusive, wall, extra=None):
    checks_total = sum(len(r["checks"]) for r in results.values())
    tagged_ok = 0
    covers_ok = 0
    samples = []
    per_h = []
    for h in sel:
        r = results[h.name]
        mine = [c for c in r["checks"] if prop in tags_of(c["desc"])]
        ok = [c for c in mine if c["status"] == "SUCCESS"]
        unreach = [c for c in mine if c["status"] == "UNREACHABLE"]
        cov = [c for c in r["checks"] if c["status"] == "SATISFIED"]
        tagged_ok += len(ok)
        covers_ok += len(cov)
        if ok and len(samples) < 8:
            samples.append({"harness": h.name, "call": h.line, "unwind": h.unwind, "obligation": ok[0]["desc"], "location": ok[0]["loc"], "status": ok[0]["status"]})
        per_h.append({
            "harness": h.name, "call": h.line, "unwind": h.unwind, "status": r["class"]["status"],
            "cbmc_checks": len(r["checks"]), "tagged_assertions": len(mine), "tagged_discharged": len(ok), "tagged_unreachable_failure_branches": len(unreach),
            "cover_goals_satisfied": len(cov), "sat_calls": r["sat_calls"], "variables": r["variables"], "clauses": r["clauses"],
            "symex_s": round(r["symex_s"], 2), "solver_s": round(r["solver_s"], 2), "wall_s": round(r["wall"], 1), "sat_solver": r.get("solver"),
        })
    if not samples:
        samples = [{"harness": h.name, "call": h.line} for h in sel[:3]]
    ev = {
        "property_id": prop,
        "tier": tier,
        "seed": seed,
        "level": "model_checking",
        "coverage": {
            "evaluations": checks_total,
            "distinct_nontrivial": tagged_ok + covers_ok,
            "rule": "evaluations = CBMC properties decided over all harnesses of this run (tagged assertions, cover goals, built-in pointer/overflow/unwinding checks); distinct_nontrivial = distinct (harness, assertion) pairs tagged with this property that are reachable and were proven for every symbolic input within the bounds, plus satisfied cover goals (reachability witnesses)",
            "samples": samples,
            "engine": "Kani 0.68.0 / CBMC 6.11.0 / MiniSat 2 (cadical where a harness says so), bounded symbolic execution of the real lru-mem code (MIR -> goto), hashbrown RawTable replaced by the contract model",
            "functions_encoded": functions_encoded(results.values()),
            "harnesses": per_h,
            "queries_discharged": sum(r["sat_calls"] for r in results.values()),
            "solver_s": round(sum(r["solver_s"] for r in results.values()), 1),
            "symex_s": round(sum(r["symex_s"] for r in results.values()), 1),
            "trusted_base": ["Kani/CBMC", "contract model of hashbrown::raw::RawTable, validated natively against hashbrown 0.14.5 on this run: " + MODEL_INFO["line"], "rustc MIR"],
            "inconclusive": [{"harness": n, "notes": [x[:300] for x in notes]} for n, notes in inconclusive],
            "known_findings": [{"harness": n, "check": f["desc"], "finding": kf["text"]} for n, f, kf in known],
            "exhaustive": False,
            **(extra or {}),
        },
        "assumptions": ASSUMPTIONS,
        "wall_s": round(wall, 1),
        "violations": len(violations),
    }
    if os.environ.get("VERIF_HARNESSES") or os.environ.get("VERIF_ONLY") or os.environ.get("VERIF_NO_EVIDENCE"):
        return  # partial / experimental runs do not overwrite the evidence file
    (VERIF / "evidence").mkdir(exist_ok=True)
    (VERIF / "evidence" / ("%s.json" % prop)).write_text(json.dumps(ev, indent=1))


def replay_file(prop, path):
    d = json.loads(Path(path).read_text())
    scratch = Path(tempfile.mkdtemp(prefix="lru-verif-replay-", dir=SCRATCH_BASE))
    try:
        outs = native_replay(scratch, d.get("property", prop), d["harness"], d["vals"])
        ok, prof, what = replay_reproduces(outs, d.get("property", prop))
        for p, rc, out in outs:
            log("--- %s profile: exit %s\n%s" % (p, rc, out.strip()[-1500:]))
        if ok:
            log("REPRODUCED (%s): %s" % (prof, what))
            return 1
        log("not reproduced")
        return 0
    finally:
        shutil.rmtree(scratch, ignore_errors=True)


def main(argv):
    if len(argv) >= 2 and argv[1] == "--list":
        for h in load_registry():
            print("%-36s unwind %d  quick=%s thorough=%s to=%d  %s" % (h.name, h.unwind, ",".join(h.quick), ",".join(h.thorough), h.timeout, h.line))
        return 0
    if len(argv) < 3:
        print(__doc__)
        return 2
    prop = argv[1]
    if argv[2] == "--replay":
        return replay_file(prop, argv[3])
    # the tier named on the command line wins; VERIF_TIER is the fallback
    tier = argv[2] if argv[2] in ("quick", "thorough") else os.environ.get("VERIF_TIER", "quick")
    if tier not in ("quick", "thorough"):
        tier = "quick"
    seed = int(os.environ.get("VERIF_SEED", "0") or 0)
    os.environ["VERIF_TIER_EFFECTIVE"] = tier
    return check_property(prop, tier, seed)


if __name__ == "__main__":
    sys.exit(main(sys.argv))
