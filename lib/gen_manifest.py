#!/usr/bin/env python3
"""Writes /verif/MANIFEST.json from the table below (kept next to the runner so
the claims and the registry stay in one place)."""
import json
from pathlib import Path

VERIF = Path(__file__).resolve().parent.parent
BASE = ("Bounded symbolic execution of the real lru-mem code with Kani 0.68/CBMC 6.11 (MIR -> goto program, rebuilt from /repo on every run): "
        "one operation from an arbitrary valid cache state built directly (symbolic 64-bit sizes and limit, symbolic key/arguments), tagged assertions against a "
        "reference model, SAT verdict for all values inside the bounds, cover goals as vacuity guards, unwinding assertions on; counterexamples are replayed "
        "natively against the unmodified crate with the real hashbrown before a VIOLATION is printed. ")
NOTE = ("Bounds: <= 3 (thorough: 4) entries before the step, tables of <= 8 buckets; sizes < 2^40 where the harness name has no `_full` (64-bit otherwise); "
        "hashbrown::raw::RawTable replaced by the contract model /verif/model/hashbrown (validated against hashbrown 0.14.5 on every run); assumptions A1-A5 of DESIGN.md 4; "
        "Kani models the dev profile; no unwinding, no threads.")
CLAIMS = {
 "C01": ("Inductive step: current_size() <= max_size() asserted after every mutating operation (insert, try_insert, mutate, set_max_size, remove*, retain, clear, drain, growing insert) from every valid state within the bounds, incl. exact-fit and one-over boundaries at 64-bit width.", "5 C01"),
 "C02": ("Inductive step: len/current_size/is_empty against the contents actually iterated, the per-operation delta of the reference model, recorded per-entry sizes (invariant I3/I4) and a drain probe that removes every entry and checks each decrement.", "5 C02"),
 "C03": ("Inductive step for insert, mutate, set_max_size: the survivors are exactly the reference model's minimal LRU suffix, the new/mutated entry survives, exact fits evict nothing, replacement credits the old size first (cover goals force those cases).", "5 C03"),
 "C04": ("Return values (with ghost identity) and lookups of every key of the universe through the borrowed form after each operation, for the mixed, all-colliding and all-distinct hash patterns and across reallocation (reserve/shrink/growing insert).", "5 C04"),
 "C05": ("Relative order of untouched entries, promoted entry at MRU, reverse traversal mirrors, peek_lru/peek_mru are the traversal's ends, for every position of the accessed entry; observations and rejected operations leave the structural fingerprint unchanged.", "5 C05"),
 "C06": ("Ghost drop table: every key/value id moved in is dropped exactly once after the cache and everything obtained from it are gone; returned values are checked by identity; a second drop fails inside the code path that performs it.", "5 C06"),
 "C07": ("Representation invariant I1/I2 (mirror links, exactly len() nodes, each node is the bucket a lookup finds) after every step plus CBMC's pointer checks (NULL, dangling, freed, out of bounds, double free) on every dereference executed in lru-mem, incl. after reallocation by growth/reserve/try_reserve/shrink.", "5 C07"),
 "C08": ("Kani harnesses on the real mem_size.rs impls and real std containers with symbolic shapes: mem_size = value_size + heap_size, containers/wrappers compared with an explicit formula, bulk *_sum_* helpers on filtered/reversed/chained/mapped iterators vs the element-wise sum; stack clause decided as 'recursion depth does not grow with the element count' with a per-function recursion bound of 2.", "5 C08"),
 "C09": ("heap_size compared with the number of bytes the allocator handed out, read off CBMC's object bounds (kani::mem::can_dereference for exactly n and not n+1 bytes) for Vec, String, Box<T/str/[T]/CStr>, CString, OsString, PathBuf and nestings, over construction scripts with_capacity/push/reserve/shrink_to_fit/truncate; HashMap/HashSet clause outside reach (stated).", "5 C09"),
 "C10": ("Inductive step for insert/try_insert: failure variant, every error field, identity of the returned pair through all accessors, unchanged structural fingerprint on failure, success iff none of the conditions holds, nothing evicted when the entry fits the free space; cover goals for simultaneous failure conditions.", "5 C10"),
 "C11": ("Inductive step for mutate, one query per key position: closure call count (ghost), forwarded result, MRU promotion, new recorded size, minimal eviction, EntryTooLarge with mutated value and exact old/new sizes, nothing else touched.", "5 C11"),
 "C12": ("All 2^(n+2) next/next_back call patterns of symbolic length in one query per iterator kind (iter, keys, values, drain, into_iter, into_keys, into_values) against a model deque, None after exhaustion, borrowing iterators leave the fingerprint unchanged, drained cache empty and usable, unconsumed items dropped exactly once.", "5 C12"),
 "C13": ("Shape-concrete harnesses (0..3 entries, tables of capacity 0/3/7, symbolic recency order and full-range arguments): capacity inequalities for reserve/try_reserve/shrink_to/shrink_to_fit/with_capacity, failure atomicity with injected allocator refusal, transparency, automatic growth requests exactly max(2*len,1); plus an SMT lemma (z3, cross-checked with cvc5) over hashbrown's rounding functions re-read from the pinned source: cap(buckets(2*len)) < max(4*len,16) for all len < 2^32.", "5 C13"),
 "C14": ("clone(): same entries/order/sizes/limit, capacity >=, source fingerprint unchanged, ghost ids show own copies, then one symbolic operation on either side leaves the other side's fingerprint unchanged; drop of either side leaves the other fully usable; all originals and copies dropped exactly once.", "5 C14"),
 "C15": ("retain with a symbolic mask (all 2^n subsets in one query): ghost log of predicate calls equals the LRU->MRU sequence with the actual keys/values, survivors = selected entries in order, len/current_size updated, rejected entries dropped once.", "5 C15"),
 "C17": ("For each iterator kind: symbolic prefix of next/next_back, mem::forget of the iterator, then invariant, further insert/lookup and drop of the cache; no ghost id dropped twice, no dangling dereference. (Found the Drain defect, repaired by a fix: commit.)", "5 C17"),
 "C19": ("Structural fingerprint (addresses, links, recorded sizes, keys, ids, seal links, totals, table bookkeeping words) unchanged across every &self operation with present/absent key and any traversal pattern, and across clone(). Decides the sequential no-write fact; schedules are not explored (stated).", "5 C19"),
 "C20": ("Ghost counter of hasher constructions: <= 2 + departures for every step harness, <= 2 + len for operations that rebuild the table, == 0 for traversals, clear, drain, peek_lru/peek_mru.", "5 C20"),
}
NA = {
 "C16": "Kani/CBMC compile with panic=abort and have no model of unwinding: the state after catch_unwind (landing pads, drop of RawIntoIter, scope guards) cannot be encoded; checking the state at the callback instead would raise false alarms on repairs that use drop guards. Solver-based checking cannot decide it here (DESIGN.md 6).",
 "C18": "The verdict is rustc's trait solver and borrow checker accepting or rejecting probe programs at compile time; there is no run-time semantics to execute symbolically and no SMT query to pose (DESIGN.md 6).",
}

def main():
    checks = []
    for pid, (text, ref) in CLAIMS.items():
        checks.append({
            "property_id": pid,
            "quick_cmd": "./check %s quick" % pid,
            "thorough_cmd": "./check %s thorough" % pid,
            "evidence_file": "/verif/evidence/%s.json" % pid,
            "replay_cmd_template": "./check %s --replay {path}" % pid,
            "engine": "kani-cbmc" if pid != "C13" else "kani-cbmc+z3",
            "level_claimed": {"category": "model_checking", "text": BASE + text, "design_ref": "DESIGN.md " + ref},
            "level_note": NOTE,
            "technique": ("bounded model checking of the compiled Rust code (Kani/CBMC, SAT) - symbolic valid state + one step, differential against a reference model"
                          + ("; SMT lemma (z3/cvc5, bit-vectors) for the growth bound" if pid == "C13" else "")
                          + ("; CBMC object-bounds oracle" if pid == "C09" else "")
                          + ("; per-function recursion bound" if pid == "C08" else "")),
        })
    m = {
        "version": 1,
        "setup_cmd": "./setup.sh",
        "hooks": {
            "guard": "none: no source hooks. The harness module is injected into a scratch copy of /repo at run time under cfg(kani) / cfg(lru_mem_verif_replay)",
            "enable": "each check copies /repo's working tree to a scratch directory, appends `#[cfg(any(kani, lru_mem_verif_replay))] #[path = \"/verif/harness/mod.rs\"] mod verif_harness;` to the copy's src/lib.rs and, for the Kani build, patches hashbrown to /verif/model/hashbrown",
            "baseline_off_cmd": "cd /repo && cargo test --workspace --no-fail-fast --offline",
            "source_commits": [],
            "add_only": True,
        },
        "engines": [
            {"name": "kani-cbmc", "path": "/verif/lib/runner.py", "serves_properties": sorted(CLAIMS), "kind_free_text": "Kani 0.68 / CBMC 6.11 (MiniSat2 / CaDiCaL) bounded model checking of the real crate; harnesses in /verif/harness; hashbrown contract model in /verif/model/hashbrown; native replay runner in /verif/lib/replay_main.rs"},
            {"name": "z3", "path": "/verif/smt/growth_bound.py", "serves_properties": ["C13"], "kind_free_text": "z3 (cross-checked with cvc5) bit-vector lemma over hashbrown's capacity rounding, re-read from the pinned source"},
        ],
        "checks": checks,
        "notes": "Exit 2 of a check means inconclusive (timeout, out of memory, unsatisfied cover goal, counterexample that does not reproduce natively); it is never reported as a pass. Genuine defects found and repaired by fix: commits in /repo are listed in /verif/known-findings.txt.",
        "not_applicable": [{"property_id": k, "reason": v} for k, v in NA.items()],
    }
    (VERIF / "MANIFEST.json").write_text(json.dumps(m, indent=1))

if __name__ == "__main__":
    main()
