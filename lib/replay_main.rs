//! Native replay of a CBMC counterexample: feeds the recorded symbolic values
//! to the same harness body, compiled against the real hashbrown.
// Tracking allocator: the native counterpart of the CBMC object-bounds oracle
// used by the C09 harnesses (size of the live allocation starting at p).
use std::alloc::{GlobalAlloc, Layout, System};
use std::sync::atomic::{AtomicUsize, Ordering::SeqCst};
const SLOTS: usize = 1 << 16;
static PTRS: [AtomicUsize; SLOTS] = [const { AtomicUsize::new(0) }; SLOTS];
static SIZES: [AtomicUsize; SLOTS] = [const { AtomicUsize::new(0) }; SLOTS];
fn slot_of(p: usize) -> usize {
    (p >> 4) % SLOTS
}
fn record(p: usize, sz: usize) {
    let mut i = slot_of(p);
    for _ in 0..SLOTS {
        let cur = PTRS[i].load(SeqCst);
        if cur == 0 || cur == 1 || cur == p {
            PTRS[i].store(p, SeqCst);
            SIZES[i].store(sz, SeqCst);
            return;
        }
        i = (i + 1) % SLOTS;
    }
}
fn find(p: usize) -> Option<usize> {
    let mut i = slot_of(p);
    for _ in 0..SLOTS {
        let cur = PTRS[i].load(SeqCst);
        if cur == 0 {
            return None;
        }
        if cur == p {
            return Some(i);
        }
        i = (i + 1) % SLOTS;
    }
    None
}
static FAIL_NEXT: AtomicUsize = AtomicUsize::new(0);
fn fail_hook(on: bool) {
    FAIL_NEXT.store(on as usize, SeqCst);
}
struct Tracking;
unsafe impl GlobalAlloc for Tracking {
    unsafe fn alloc(&self, l: Layout) -> *mut u8 {
        if FAIL_NEXT.swap(0, SeqCst) == 1 {
            return std::ptr::null_mut(); // injected allocator refusal
        }
        let p = System.alloc(l);
        if !p.is_null() {
            record(p as usize, l.size());
        }
        p
    }
    unsafe fn dealloc(&self, p: *mut u8, l: Layout) {
        if let Some(i) = find(p as usize) {
            PTRS[i].store(1, SeqCst);
        }
        System.dealloc(p, l)
    }
    unsafe fn realloc(&self, p: *mut u8, l: Layout, new_size: usize) -> *mut u8 {
        let q = System.realloc(p, l, new_size);
        if !q.is_null() {
            if let Some(i) = find(p as usize) {
                PTRS[i].store(1, SeqCst);
            }
            record(q as usize, new_size);
        }
        q
    }
}
#[global_allocator]
static GLOBAL: Tracking = Tracking;
fn alloc_query(p: *const u8) -> Option<usize> {
    find(p as usize).map(|i| SIZES[i].load(SeqCst))
}

fn main() {
    let _ = lru_mem::verif_harness::memsize::ALLOC_QUERY.set(alloc_query);
    let _ = lru_mem::verif_harness::tm::FAIL_HOOK.set(fail_hook);
    let path = std::env::args().nth(1).expect("usage: replay-runner <cex.json> | --search <harness> <iterations> <seed>");
    if path == "--search" {
        let h = std::env::args().nth(2).unwrap();
        let iters: u64 = std::env::args().nth(3).and_then(|s| s.parse().ok()).unwrap_or(200000);
        let seed: u64 = std::env::args().nth(4).and_then(|s| s.parse().ok()).unwrap_or(1);
        if !lru_mem::verif_harness::search(&h, iters, seed) {
            eprintln!("REPLAY-MISMATCH: unknown harness {}", h);
            std::process::exit(3);
        }
        println!("SEARCH: no failing input found in {} iterations", iters);
        return;
    }
    let s = std::fs::read_to_string(path).unwrap();
    // minimal JSON reading: {"harness": "...", "vals": [[..],[..]]}
    let h = s.split("\"harness\": \"").nth(1).unwrap().split('"').next().unwrap().to_string();
    let v = s.split("\"vals\": ").nth(1).unwrap();
    let mut vals: Vec<Vec<u8>> = vec![];
    let mut cur: Option<Vec<u8>> = None;
    let mut num = String::new();
    let mut depth = 0;
    for ch in v.chars() {
        match ch {
            '[' => {
                depth += 1;
                if depth == 2 {
                    cur = Some(vec![]);
                }
            }
            ']' => {
                if depth == 2 {
                    if !num.is_empty() {
                        cur.as_mut().unwrap().push(num.parse().unwrap());
                        num.clear();
                    }
                    vals.push(cur.take().unwrap());
                }
                depth -= 1;
                if depth == 0 {
                    break;
                }
            }
            ',' => {
                if depth == 2 && !num.is_empty() {
                    cur.as_mut().unwrap().push(num.parse().unwrap());
                    num.clear();
                }
            }
            c if c.is_ascii_digit() => num.push(c),
            _ => {}
        }
    }
    eprintln!("replaying {} with {} recorded values", h, vals.len());
    if !lru_mem::verif_harness::replay(&h, vals) {
        eprintln!("REPLAY-MISMATCH: unknown harness {}", h);
        std::process::exit(3);
    }
    println!("REPLAY: no divergence");
}
