//! Native replay of a CBMC counterexample: feeds the recorded symbolic values
//! to the same harness body, compiled against the real hashbrown.
fn main() {
    let path = std::env::args().nth(1).expect("usage: replay-runner <cex.json>");
    let s = std::fs::read_to_string(path).unwrap();
    // minimal JSON reading: {"harness": "...", "vals": [[..],[..]]}
    let h = s.split("\"harness\": \"").nth(1).unwrap().split('"').next().unwrap().to_string();
    let v = s.split("\"vals\": ").nth(1).unwrap();
    let mut vals: Vec<Vec<u8>> = vec![];
    let mut cur: Option<Vec<u8>> = None;
    let mut num = String::new();
    let mut depth = 0;
    for ch in v.chars() {
        match ch {
            '[' => {
                depth += 1;
                if depth == 2 {
                    cur = Some(vec![]);
                }
            }
            ']' => {
                if depth == 2 {
                    if !num.is_empty() {
                        cur.as_mut().unwrap().push(num.parse().unwrap());
                        num.clear();
                    }
                    vals.push(cur.take().unwrap());
                }
                depth -= 1;
                if depth == 0 {
                    break;
                }
            }
            ',' => {
                if depth == 2 && !num.is_empty() {
                    cur.as_mut().unwrap().push(num.parse().unwrap());
                    num.clear();
                }
            }
            c if c.is_ascii_digit() => num.push(c),
            _ => {}
        }
    }
    eprintln!("replaying {} with {} recorded values", h, vals.len());
    if !lru_mem::verif_harness::replay(&h, vals) {
        eprintln!("REPLAY-MISMATCH: unknown harness {}", h);
        std::process::exit(3);
    }
    println!("REPLAY: no divergence");
}
