#!/usr/bin/env python3
"""Writes seeded/<id>/meta.json from the table below plus the measured results in seeded/results.txt
(one line per run of lib/mutant_test.sh)."""
import json, re
from pathlib import Path
V = Path(__file__).resolve().parent.parent
D = {
 "C01-A": ("insert credits the replaced entry's size to the eviction target before removing it (stale when the eviction loop ejects that entry itself)", "replacing a present key that sits at the LRU end with a value larger than the free space"),
 "C01-B": ("a growing mutate ejects at most one entry (loop became a single if)", "a growth that needs two or more evictions while the grown entry still fits max_size"),
 "C02-A": ("the shrinking branch of mutate no longer updates the entry's recorded size", "a strictly shrinking mutate followed by that entry leaving the cache (remove, replacement, eviction) or growing again"),
 "C02-B": ("insert subtracts the NEW entry's size instead of the old one's when replacing a key", "insert on a present key with a value of a different size"),
 "C03-A": ("the grown entry is promoted only after eviction (touch by key after eject_to_target)", "a growing mutate that overflows the limit while the mutated entry is at/near the LRU end"),
 "C03-B": ("insert makes room before removing the old entry of the same key", "replacing a present key while current_size + new size exceeds the limit"),
 "C04-A": ("insert removes the existing entry for the key before the too-large check", "insert of an entry larger than max_size under a key that is present"),
 "C04-B": ("try_reallocate moves the live table out before the fallible allocation", "a try_reserve whose allocation fails on a non-empty cache"),
 "C05-A": ("the non-expanding branch of mutate no longer promotes the entry", "a shrinking or size-preserving mutate of an entry that is not already MRU"),
 "C05-B": ("try_insert's occupancy check uses the promoting get()", "a try_insert rejected with OccupiedEntry for a key that is not MRU"),
 "C06-A": ("try_reallocate takes the old table before the fallible allocation; on failure every key/value is leaked", "a failing try_reserve on a non-empty cache"),
 "C06-B": ("IntoIter::drop skips the remaining entries when needs_drop::<V>() is false (forgets K)", "key type with drop glue, value type without, owning iterator dropped before exhaustion"),
 "C07-A": ("failed try_reserve leaves the recency list pointing into the freed table", "a failing try_reserve on a non-empty cache, then any list operation"),
 "C07-B": ("expanding mutate ejects before touching: the ejected (mutated) entry is re-linked into the list", "a growing mutate that overflows while the mutated entry is the LRU"),
 "C08-A": ("SizedArrayFlatIterator::next made recursive again", "a large collection of zero-length arrays whose element type walks the iterator"),
 "C08-B": ("new bulk helper for Range<I>: the exact-size variant sums start twice instead of start + end", "ranges with heap-owning bounds of different sizes as elements of a container"),
 "C09-A": ("new String::heap_size_sum_iter sums len() instead of capacity()", "a String with spare capacity as a direct element of a collection"),
 "C09-B": ("new Result::heap_size_sum_iter flattens and so drops every Err payload", "a collection of Results with at least one heap-owning Err"),
 "C10-A": ("try_insert's occupancy check uses the promoting get()", "try_insert rejected with OccupiedEntry for a non-MRU key, then observe the order"),
 "C10-B": ("insert removes the existing entry before the too-large check", "too-large insert under a present key"),
 "C11-A": ("the too-large check compares the value's mem_size instead of the entry size", "growth to a size in (max_size, max_size + key/entry overhead]"),
 "C11-B": ("the shrinking branch of mutate no longer updates the entry's recorded size", "shrinking mutate, then removal/eviction/regrowth of that entry"),
 "C12-A": ("Iter::next_back clears its own cursor instead of the shared one when the cursors meet", "the last entry is taken by next_back and next() is called afterwards"),
 "C12-B": ("TakingIterator drops the remaining entries only if needs_drop::<V>()", "key type with drop glue, plain-data values, drain/into_* dropped before exhaustion"),
 "C13-A": ("shrink_to's guard compares capacity with len instead of the target", "shrink_to with a bound above the current capacity while there is spare room"),
 "C13-B": ("automatic growth requests buckets() instead of 2 * capacity()", "tombstone build-up in a table of >= 32 buckets (clustered hashes, churn at constant length)"),
 "C14-A": ("clone sizes the new table by len() instead of capacity()", "a source with spare capacity (with_capacity / reserve / after shrinking contents)"),
 "C14-B": ("empty-source fast path in clone with max_size and capacity swapped", "cloning an empty cache"),
 "C15-A": ("retain walks from MRU to LRU", "an order-sensitive (stateful or recording) predicate, >= 2 entries"),
 "C15-B": ("retain restarts from the LRU end after every removal", "a rejected entry that has an older retained entry, with a counting/stateful predicate"),
 "C17-A": ("Drain::new resets seal.next twice and never seal.prev", "a drain on a non-empty cache is forgotten and an LRU-end / list-walking operation follows before any insert"),
 "C17-B": ("the cache is emptied on the first next() only, not on next_back()", "a drain advanced only from the back, then forgotten"),
 "C19-A": ("clone drops an entry through unhinge() (off-by-one size check), which writes through the links copied from the SOURCE", "cloning a cache that is exactly full (current_size == max_size)"),
 "C19-B": ("peek_mru unhinges and re-inserts the MRU entry; a singleton is never re-inserted", "peek_mru on a cache holding exactly one entry"),
 "C20-A": ("remove_ptr gains a debug_assert!(self.contains(key)): a second hash per evicted entry", "one operation that evicts several entries, debug assertions on"),
 "C10-A2": ("try_insert's fit check computed as current_size + entry_size > max_size (overflows usize)", "user-defined sizes above usize::MAX/2 with a limit near usize::MAX"),
 "C10-B2": ("try_insert checks occupancy before free memory", "a present key whose new entry also does not fit the free space"),
 "C03-A2": ("mutate's too-large check uses >= instead of >", "a growing mutate that lands exactly on max_size"),
 "C03-B2": ("eject_to_target never ejects the last remaining (MRU) entry", "an insert / set_max_size that needs every current entry gone"),
 "C01-A2": ("the shrinking branch of mutate no longer updates the entry's recorded size", "shrinking mutate, then that entry leaves the cache, then the cache is refilled: the true sum exceeds max_size"),
 "C01-B2": ("eviction loop stops when LRU == MRU (one entry left)", "an eviction that has to empty a cache holding exactly one entry"),
 "C14-A2": ("insert_untracked links the new head by hand and never sets its prev: the clone's MRU entry keeps a prev pointer to the SOURCE's seal", "the first list-modifying operation on a fresh clone unhinges the clone's MRU entry"),
 "C14-B2": ("Entry::clone re-estimates the entry size from the copies while clone() copies current_size verbatim", "a key/value whose copy reports a smaller size (spare capacity), then that entry leaves the clone"),
 "C13-A2": ("try_reallocate fast path for an empty cache drops the old table before the fallible allocation", "a failing try_reserve on an empty cache that owns a table"),
 "C13-B2": ("reserve/try_reserve compare the request with buckets() instead of capacity()", "a request in the window capacity < len + additional <= buckets"),
 "C12-A2": ("IntoIter::drop returns early when the FRONT cursor is untouched", "an owning iterator advanced only with next_back, then dropped with entries left"),
 "C12-B2": ("IntoValues::next_back pulls from the front", "into_values() driven from the back with >= 2 entries"),
 "C20-A2": ("the grow path of insert requests len + 1 instead of 2 * capacity", "full table of >= 32 buckets, the evicted LRU leaves a tombstone, the new key lands on an empty bucket"),
 "C20-B2": ("eject_to_target reallocates when capacity() dropped during ejection", ">= 32 buckets and an eviction that leaves a tombstone"),
 "C05-A2": ("same-size overwriting insert swaps the value in place and does not promote", "insert on a present non-MRU key with an entry of exactly the old size"),
 "C05-B2": ("Iter::next_back marks exhaustion on its own cursor only", "the last entry is taken by next_back, then next() is called"),
 "C19-A2": ("Iter::next_back writes prev = null into the entry where the cursors meet", "a shared-reference traversal whose last element is taken from the back"),
 "C19-B2": ("peek memo in a Cell (written through &self), not invalidated by drain()", "peek a key, drain, peek the same key again"),
 "C06-A2": ("Drain::new no longer clears the table (only Drain::drop does)", "a Drain that yielded entries and is leaked, then the cache is dropped/cleared"),
 "C06-B2": ("Drain::new no longer unhooks the list from the seal (only Drain::drop does)", "leaked partial Drain, then insert, then drain()/into_iter()"),
 "C04-A2": ("insert makes room before removing the old entry of the same key", "replacing a present key near the LRU end while the cache is full: returns None instead of the old value"),
 "C04-B2": ("mutate's too-large path removes the LRU entry instead of the mutated one", "a rejected growing mutate of an entry that is not the LRU"),
 "C07-A2": ("Iter: each end tracks its own exhaustion; next_back leaves the front cursor on the yielded entry", "last element taken by next_back, then next(): yields entries again and walks onto the seal"),
 "C07-B2": ("get_lru re-links by hand with a head pointer read before unhinging", "get_lru on a cache holding exactly one entry: the entry is linked to itself"),
 "C20-B": ("insert_untracked reallocates when capacity <= len + 1 (off by one): clone of an exactly full table rehashes everything again", "cloning a cache with len() == capacity() (7, 14, ...)"),
}
def main():
    res = {}
    rf = V / "seeded" / "results.txt"
    if rf.exists():
        for ln in rf.read_text().splitlines():
            m = re.match(r"(C\d+-\w+) tier=(\w+) baseline_demo=\[(.*?)\] mutant_demo=\[(.*?)\] preexisting_failed_targets=(\d+) check_rc=(\d+) violation_lines=(\d+) secs=(\d+)(.*)", ln)
            if m:
                res.setdefault(m.group(1), []).append({"tier": m.group(2), "demo_on_unmodified": m.group(3), "demo_with_change": m.group(4), "preexisting_test_targets_failing": int(m.group(5)), "check_exit": int(m.group(6)), "violation_lines": int(m.group(7)), "seconds": int(m.group(8)), "note": m.group(9).strip()})
    for d in sorted((V / "seeded").glob("C*-*")):
        mid = d.name
        what, needs = D.get(mid, ("", ""))
        meta = {"id": mid, "property": mid.split("-")[0], "change": what, "needs_to_manifest": needs,
                "source": "written by an independent sub-agent that saw only the property text and a scratch worktree of /repo",
                "confirmed": "applied in a scratch worktree: all pre-existing test targets pass, demo.rs fails with the change and passes without it (lib/mutant_test.sh)",
                "runs": res.get(mid, [])}
        (d / "meta.json").write_text(json.dumps(meta, indent=1))
if __name__ == "__main__":
    main()
