//! Contract-level model of the part of hashbrown 0.14 `raw::RawTable` that
//! lru-mem uses, shaped for bounded model checking with Kani/CBMC (see
//! /verif/DESIGN.md section 3.2):
//!
//! * every bucket is its own heap object, so CBMC keeps field-sensitive
//!   constants and a stale `EntryPtr` into a freed table is a dereference of
//!   a deallocated object;
//! * all bookkeeping is packed into a few scalar fields (the struct is 24
//!   bytes, `mem::swap` of two tables is three 8-byte chunks);
//! * no loops (8 slots, macro-unrolled);
//! * nondeterminism (which free bucket an insertion lands in, whether an erase
//!   leaves a tombstone) is drawn from `model::CHOICES`, which the harness
//!   fills with symbolic bytes, so that every symbolic value of a run is drawn
//!   by the harness in a fixed order (needed for the native replay).
//!
//! This crate is a verification stub. It is validated against the real
//! hashbrown 0.14.5 by /verif/model/validate on every run.
#![allow(clippy::all)]
#![allow(static_mut_refs)]
use std::alloc::{self, Layout};

#[derive(Clone, PartialEq, Eq, Debug)]
pub enum TryReserveError {
    CapacityOverflow,
    AllocError { layout: Layout },
}

pub mod hash_map {
    pub type DefaultHashBuilder =
        core::hash::BuildHasherDefault<std::collections::hash_map::DefaultHasher>;
}

pub mod model {
    /// 8 buckets (7 entries) by default; `--cfg model16`: 16 buckets (14 entries), used by the
    /// few shape-concrete harnesses that need a table of more than 7 entries.
    #[cfg(not(model16))]
    pub const MAX_BUCKETS: usize = 8;
    #[cfg(model16)]
    pub const MAX_BUCKETS: usize = 16;
    /// The next fallible table allocation reports `AllocError` (fault injection).
    pub static mut FAIL_NEXT_ALLOC: bool = false;
    /// Ghost: number of table allocations performed so far.
    pub static mut TABLES_ALLOCATED: usize = 0;
    /// Ghost: capacity requested by the most recent table allocation.
    pub static mut LAST_REQUEST: usize = 0;
    /// Ghost: number of entries moved by `RawTable::insert` having to grow.
    pub static mut INSERT_GROWS: usize = 0;
    /// When set, a failing `try_insert_no_grow` is asserted impossible and the
    /// path is cut (the harness sized the table so that it cannot fill).
    pub static mut EXPECT_NO_GROW: bool = false;
    /// Insertions land in the free bucket selected by the next choice byte.
    pub static mut NONDET_PLACEMENT: bool = false;
    /// Erasures leave a tombstone iff the next choice byte is odd.
    pub static mut NONDET_TOMBSTONES: bool = false;
    pub static mut CHOICES: [u8; 16] = [0; 16];
    pub static mut CHOICE_IDX: usize = 0;
    /// Native runs only: a drawn choice was not feasible (fell back to the default).
    pub static mut CHOICE_INFEASIBLE: bool = false;

    pub(crate) fn next_choice() -> u8 {
        unsafe {
            let i = CHOICE_IDX;
            if i >= 16 {
                feasible(false);
                return 0;
            }
            CHOICE_IDX = i + 1;
            CHOICES[i]
        }
    }

    /// Restricts the choices to feasible ones (an assumption under Kani).
    pub(crate) fn feasible(c: bool) -> bool {
        #[cfg(kani)]
        kani::assume(c);
        #[cfg(not(kani))]
        if !c {
            unsafe { CHOICE_INFEASIBLE = true; }
        }
        c
    }

    pub fn reset() {
        unsafe {
            FAIL_NEXT_ALLOC = false;
            TABLES_ALLOCATED = 0;
            LAST_REQUEST = 0;
            INSERT_GROWS = 0;
            EXPECT_NO_GROW = false;
            NONDET_PLACEMENT = false;
            NONDET_TOMBSTONES = false;
            CHOICES = [0; 16];
            CHOICE_IDX = 0;
            CHOICE_INFEASIBLE = false;
        }
    }

    /// hashbrown's `capacity_to_buckets` (copied from 0.14.5 `raw/mod.rs`).
    pub fn capacity_to_buckets(cap: usize) -> Option<usize> {
        if cap < 8 {
            return Some(if cap < 4 { 4 } else { 8 });
        }
        let adjusted_cap = cap.checked_mul(8)? / 7;
        Some(adjusted_cap.next_power_of_two())
    }

    /// hashbrown's `bucket_mask_to_capacity`, taking the bucket count.
    pub fn buckets_to_capacity(buckets: usize) -> usize {
        if buckets == 0 {
            0
        } else if buckets <= 8 {
            buckets - 1
        } else {
            (buckets / 8) * 7
        }
    }
}

pub mod raw {
    use super::model::*;
    use super::*;
    use core::mem;
    use core::ptr;

    pub struct Bucket<T> {
        ptr: *mut T,
    }
    impl<T> Clone for Bucket<T> {
        fn clone(&self) -> Self {
            Bucket { ptr: self.ptr }
        }
    }
    impl<T> Bucket<T> {
        pub fn as_ptr(&self) -> *mut T {
            self.ptr
        }
        pub unsafe fn as_ref<'a>(&self) -> &'a T {
            &*self.ptr
        }
        pub unsafe fn as_mut<'a>(&self) -> &'a mut T {
            &mut *self.ptr
        }
    }

    #[cfg(not(model16))]
    type Mask = u8;
    #[cfg(model16)]
    type Mask = u16;
    #[cfg(not(model16))]
    type Hashes = u64;
    #[cfg(model16)]
    type Hashes = u128;

    pub struct RawTable<T> {
        /// null when `buckets == 0`; else MAX_BUCKETS pointers, the first `buckets` valid
        slots: *mut [*mut T; MAX_BUCKETS],
        /// byte i: low 8 bits of the hash stored in slot i
        hashes: Hashes,
        /// 0, 4, 8 (or 16)
        buckets: u8,
        items: u8,
        growth_left: u8,
        /// bit i: slot i holds a value
        full: Mask,
        /// bit i: slot i is a tombstone
        deleted: Mask,
    }

    #[cfg(not(model16))]
    macro_rules! each_slot {
        ($m:ident) => {
            $m!(0);
            $m!(1);
            $m!(2);
            $m!(3);
            $m!(4);
            $m!(5);
            $m!(6);
            $m!(7);
        };
    }
    #[cfg(model16)]
    macro_rules! each_slot {
        ($m:ident) => {
            $m!(0);
            $m!(1);
            $m!(2);
            $m!(3);
            $m!(4);
            $m!(5);
            $m!(6);
            $m!(7);
            $m!(8);
            $m!(9);
            $m!(10);
            $m!(11);
            $m!(12);
            $m!(13);
            $m!(14);
            $m!(15);
        };
    }

    impl<T> RawTable<T> {
        pub const fn new() -> Self {
            RawTable {
                slots: ptr::null_mut(),
                hashes: 0,
                buckets: 0,
                items: 0,
                growth_left: 0,
                full: 0,
                deleted: 0,
            }
        }

        fn alloc_with(capacity: usize, fallible: bool) -> Result<Self, TryReserveError> {
            if capacity == 0 {
                return Ok(Self::new());
            }
            let buckets = match capacity_to_buckets(capacity) {
                Some(b) => b,
                None => {
                    if fallible {
                        return Err(TryReserveError::CapacityOverflow);
                    } else {
                        panic!("Hash table capacity overflow")
                    }
                }
            };
            let layout = match Layout::array::<T>(buckets) {
                Ok(l) if l.size() <= isize::MAX as usize - 64 - buckets => l,
                _ => {
                    if fallible {
                        return Err(TryReserveError::CapacityOverflow);
                    } else {
                        panic!("Hash table capacity overflow")
                    }
                }
            };
            if fallible && unsafe { FAIL_NEXT_ALLOC } {
                unsafe {
                    FAIL_NEXT_ALLOC = false;
                }
                return Err(TryReserveError::AllocError { layout });
            }
            if buckets > MAX_BUCKETS {
                // Bound of the model: tables of at most 8 buckets (7 entries).
                if fallible {
                    return Err(TryReserveError::AllocError { layout });
                }
                #[cfg(kani)]
                {
                    // No harness asks the crate for more than 7 entries through an infallible
                    // path: reaching this is a harness bound being crossed, reported as such.
                    kani::assert(false, "[CUT] hashbrown model: an infallible allocation of more than 8 buckets was requested (outside the model bound)");
                    kani::assume(false);
                }
                panic!("hashbrown model: more than MAX_BUCKETS buckets requested");
            }
            let slots = Box::into_raw(Box::new([ptr::null_mut::<T>(); MAX_BUCKETS]));
            macro_rules! mk {
                ($i:expr) => {
                    if $i < buckets {
                        unsafe {
                            (*slots)[$i] = alloc::alloc(Layout::new::<T>()) as *mut T;
                        }
                    }
                };
            }
            each_slot!(mk);
            unsafe {
                TABLES_ALLOCATED += 1;
                LAST_REQUEST = capacity;
            }
            Ok(RawTable {
                slots,
                hashes: 0,
                buckets: buckets as u8,
                items: 0,
                growth_left: buckets_to_capacity(buckets) as u8,
                full: 0,
                deleted: 0,
            })
        }

        pub fn with_capacity(capacity: usize) -> Self {
            match Self::alloc_with(capacity, false) {
                Ok(t) => t,
                Err(_) => panic!("hashbrown model: allocation failed"),
            }
        }
        pub fn try_with_capacity(capacity: usize) -> Result<Self, TryReserveError> {
            Self::alloc_with(capacity, true)
        }

        pub fn len(&self) -> usize {
            self.items as usize
        }
        pub fn is_empty(&self) -> bool {
            self.items == 0
        }
        pub fn capacity(&self) -> usize {
            self.items as usize + self.growth_left as usize
        }
        pub fn buckets(&self) -> usize {
            self.buckets as usize
        }
        /// Ghost view for fingerprints: all bookkeeping words of the table.
        pub fn model_words(&self) -> (*const u8, u64, u8, u8, u8, u8, u8) {
            (self.slots as *const u8, self.hashes as u64, self.buckets, self.items, self.growth_left, self.full as u8, self.deleted as u8)
        }

        #[inline]
        unsafe fn val(&self, i: usize) -> *mut T {
            (*self.slots)[i]
        }
        #[inline]
        fn hash_at(&self, i: usize) -> u64 {
            ((self.hashes >> (8 * i)) & 0xff) as u64
        }
        #[inline]
        fn is_full(&self, i: usize) -> bool {
            (self.full >> i) & 1 == 1
        }

        fn find_index(&self, hash: u64, mut eq: impl FnMut(&T) -> bool) -> Option<usize> {
            let h = hash & 0xff;
            macro_rules! ck {
                ($i:expr) => {
                    if $i < self.buckets as usize
                        && self.is_full($i)
                        && self.hash_at($i) == h
                        && eq(unsafe { &*self.val($i) })
                    {
                        return Some($i);
                    }
                };
            }
            each_slot!(ck);
            None
        }

        pub fn find(&self, hash: u64, eq: impl FnMut(&T) -> bool) -> Option<Bucket<T>> {
            self.find_index(hash, eq).map(|i| Bucket { ptr: unsafe { self.val(i) } })
        }
        pub fn get(&self, hash: u64, eq: impl FnMut(&T) -> bool) -> Option<&T> {
            self.find_index(hash, eq).map(|i| unsafe { &*self.val(i) })
        }
        pub fn get_mut(&mut self, hash: u64, eq: impl FnMut(&T) -> bool) -> Option<&mut T> {
            self.find_index(hash, eq).map(|i| unsafe { &mut *self.val(i) })
        }

        fn erase_index(&mut self, i: usize) {
            let tomb = unsafe { NONDET_TOMBSTONES } && (next_choice() & 1) == 1;
            self.full &= !((1 as Mask) << i);
            if tomb {
                self.deleted |= (1 as Mask) << i;
            } else {
                self.growth_left += 1;
            }
            self.items -= 1;
        }

        pub fn remove_entry(&mut self, hash: u64, eq: impl FnMut(&T) -> bool) -> Option<T> {
            match self.find_index(hash, eq) {
                Some(i) => {
                    self.erase_index(i);
                    Some(unsafe { ptr::read(self.val(i)) })
                }
                None => None,
            }
        }

        fn pick_slot(&self) -> usize {
            let lowest = (!self.full).trailing_zeros() as usize;
            if unsafe { NONDET_PLACEMENT } {
                let i = (next_choice() as usize) & (MAX_BUCKETS - 1);
                if feasible(i < self.buckets as usize && !self.is_full(i)) {
                    return i;
                }
            }
            lowest
        }

        pub fn try_insert_no_grow(&mut self, hash: u64, value: T) -> Result<Bucket<T>, T> {
            if self.buckets == 0 {
                return Err(value);
            }
            let i = self.pick_slot();
            if (self.deleted >> i) & 1 == 0 {
                if self.growth_left == 0 {
                    #[cfg(kani)]
                    if unsafe { EXPECT_NO_GROW } {
                        kani::assert(false, "[CUT] hashbrown model: table full although the harness sized it to never fill");
                        kani::assume(false);
                    }
                    return Err(value);
                }
                self.growth_left -= 1;
            }
            self.deleted &= !((1 as Mask) << i);
            self.full |= (1 as Mask) << i;
            self.items += 1;
            self.hashes = (self.hashes & !((0xff as Hashes) << (8 * i))) | (((hash & 0xff) as Hashes) << (8 * i));
            unsafe {
                ptr::write(self.val(i), value);
                Ok(Bucket { ptr: self.val(i) })
            }
        }

        pub fn insert(&mut self, hash: u64, value: T, hasher: impl Fn(&T) -> u64) -> Bucket<T> {
            match self.try_insert_no_grow(hash, value) {
                Ok(b) => b,
                Err(value) => {
                    // hashbrown would rehash into a bigger allocation, moving every
                    // entry to a new address and freeing the old buckets.
                    let _ = &hasher;
                    let mut new = Self::with_capacity((self.items as usize + 1).max(self.capacity() + 1));
                    macro_rules! mv {
                        ($i:expr) => {
                            if $i < self.buckets as usize && self.is_full($i) {
                                unsafe {
                                    ptr::copy_nonoverlapping(self.val($i), new.val($i), 1);
                                    INSERT_GROWS += 1;
                                }
                            }
                        };
                    }
                    each_slot!(mv);
                    new.full = self.full;
                    new.items = self.items;
                    new.hashes = self.hashes;
                    new.growth_left = buckets_to_capacity(new.buckets as usize) as u8 - self.items;
                    self.items = 0;
                    self.full = 0;
                    mem::swap(self, &mut new);
                    match self.try_insert_no_grow(hash, value) {
                        Ok(b) => b,
                        Err(_) => unreachable!(),
                    }
                }
            }
        }

        pub fn clear_no_drop(&mut self) {
            self.full = 0;
            self.deleted = 0;
            self.items = 0;
            self.growth_left = buckets_to_capacity(self.buckets as usize) as u8;
        }

        pub fn drain(&mut self) -> RawDrain<'_, T> {
            RawDrain { table: self }
        }

        fn take_next(&mut self) -> Option<T> {
            if self.full == 0 {
                return None;
            }
            let i = self.full.trailing_zeros() as usize;
            self.full &= self.full - 1;
            self.items -= 1;
            Some(unsafe { ptr::read(self.val(i)) })
        }

        fn free(&mut self) {
            if self.buckets != 0 {
                macro_rules! fr {
                    ($i:expr) => {
                        if $i < self.buckets as usize {
                            unsafe {
                                alloc::dealloc(self.val($i) as *mut u8, Layout::new::<T>());
                            }
                        }
                    };
                }
                each_slot!(fr);
                unsafe {
                    drop(Box::from_raw(self.slots));
                }
                self.slots = ptr::null_mut();
                self.buckets = 0;
            }
        }
    }

    impl<T> Default for RawTable<T> {
        fn default() -> Self {
            Self::new()
        }
    }

    // Further parts of the RawTable API that a change to lru-mem may plausibly start to use
    // (same contract: every rebuild moves all entries to new bucket objects).
    impl<T> RawTable<T> {
        /// Bucket of the slot holding a value, by index order (for `iter`).
        fn bucket_at(&self, i: usize) -> Bucket<T> {
            Bucket { ptr: unsafe { self.val(i) } }
        }

        pub fn insert_no_grow(&mut self, hash: u64, value: T) -> Bucket<T> {
            match self.try_insert_no_grow(hash, value) {
                Ok(b) => b,
                Err(_) => panic!("hashbrown model: insert_no_grow on a full table"),
            }
        }

        fn rebuild(&mut self, capacity: usize, fallible: bool) -> Result<(), TryReserveError> {
            let mut new = Self::alloc_with(capacity, fallible)?;
            macro_rules! mv {
                ($i:expr) => {
                    if $i < self.buckets as usize && self.is_full($i) {
                        let j = (!new.full).trailing_zeros() as usize;
                        unsafe {
                            ptr::copy_nonoverlapping(self.val($i), new.val(j), 1);
                        }
                        new.full |= (1 as Mask) << j;
                        new.items += 1;
                        new.growth_left -= 1;
                        new.hashes = (new.hashes & !((0xff as Hashes) << (8 * j))) | ((self.hash_at($i) as Hashes) << (8 * j));
                    }
                };
            }
            each_slot!(mv);
            self.items = 0;
            self.full = 0;
            mem::swap(self, &mut new);
            Ok(())
        }

        pub fn reserve(&mut self, additional: usize, _hasher: impl Fn(&T) -> u64) {
            if additional > self.growth_left as usize {
                let want = (self.items as usize + additional).max(self.capacity() + 1);
                let _ = self.rebuild(want, false);
            }
        }

        pub fn try_reserve(&mut self, additional: usize, _hasher: impl Fn(&T) -> u64) -> Result<(), TryReserveError> {
            if additional > self.growth_left as usize {
                let want = match (self.items as usize).checked_add(additional) {
                    Some(w) => w.max(self.capacity() + 1),
                    None => return Err(TryReserveError::CapacityOverflow),
                };
                self.rebuild(want, true)
            } else {
                Ok(())
            }
        }

        pub fn shrink_to(&mut self, min_size: usize, _hasher: impl Fn(&T) -> u64) {
            let min_size = min_size.max(self.items as usize);
            if min_size == 0 {
                let mut old = mem::replace(self, Self::new());
                old.free();
                return;
            }
            let want_buckets = capacity_to_buckets(min_size).unwrap_or(usize::MAX);
            if want_buckets < self.buckets as usize {
                let _ = self.rebuild(min_size, false);
            }
        }

        pub fn clear(&mut self) {
            if mem::needs_drop::<T>() {
                while let Some(v) = self.take_next() {
                    drop(v);
                }
            }
            self.clear_no_drop();
        }

        pub unsafe fn erase(&mut self, item: Bucket<T>) {
            let (v, _) = self.remove(item);
            drop(v);
        }

        pub unsafe fn remove(&mut self, item: Bucket<T>) -> (T, ()) {
            let mut idx = MAX_BUCKETS;
            macro_rules! fi {
                ($i:expr) => {
                    if $i < self.buckets as usize && self.val($i) == item.ptr {
                        idx = $i;
                    }
                };
            }
            each_slot!(fi);
            if idx == MAX_BUCKETS || !self.is_full(idx) {
                panic!("hashbrown model: remove of a bucket that holds no value");
            }
            self.erase_index(idx);
            (ptr::read(item.ptr), ())
        }

        pub unsafe fn iter(&self) -> RawIter<T> {
            let mut out = [ptr::null_mut::<T>(); MAX_BUCKETS];
            let mut n = 0;
            macro_rules! co {
                ($i:expr) => {
                    if $i < self.buckets as usize && self.is_full($i) {
                        out[n] = self.val($i);
                        n += 1;
                    }
                };
            }
            each_slot!(co);
            RawIter { items: out, n, i: 0 }
        }
    }

    pub struct RawIter<T> {
        items: [*mut T; MAX_BUCKETS],
        n: usize,
        i: usize,
    }
    impl<T> Iterator for RawIter<T> {
        type Item = Bucket<T>;
        fn next(&mut self) -> Option<Bucket<T>> {
            if self.i < self.n {
                self.i += 1;
                Some(Bucket { ptr: self.items[self.i - 1] })
            } else {
                None
            }
        }
    }

    impl<T> Drop for RawTable<T> {
        fn drop(&mut self) {
            if mem::needs_drop::<T>() {
                while let Some(v) = self.take_next() {
                    drop(v);
                }
            }
            self.free();
        }
    }

    pub struct RawDrain<'a, T> {
        table: &'a mut RawTable<T>,
    }
    impl<'a, T> Iterator for RawDrain<'a, T> {
        type Item = T;
        fn next(&mut self) -> Option<T> {
            self.table.take_next()
        }
    }
    impl<'a, T> Drop for RawDrain<'a, T> {
        fn drop(&mut self) {
            if mem::needs_drop::<T>() {
                while let Some(v) = self.table.take_next() {
                    drop(v);
                }
            }
            self.table.clear_no_drop();
        }
    }

    pub struct RawIntoIter<T> {
        table: RawTable<T>,
    }
    impl<T> IntoIterator for RawTable<T> {
        type Item = T;
        type IntoIter = RawIntoIter<T>;
        fn into_iter(self) -> RawIntoIter<T> {
            RawIntoIter { table: self }
        }
    }
    impl<T> Iterator for RawIntoIter<T> {
        type Item = T;
        fn next(&mut self) -> Option<T> {
            self.table.take_next()
        }
    }
}
