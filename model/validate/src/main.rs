//! Runs every script of table operations (bounded length, 4 keys, several
//! initial capacities and hashers) against the real hashbrown `RawTable` and
//! against the contract model, and checks that the real behaviour is one of
//! the behaviours the model admits (the model's tombstone choices are
//! enumerated; placement is unobservable through this interface).
//! Also compares the capacity rounding for requests 0..=100000.
use hashbrown::raw::RawTable as Real;
use hbmodel::raw::RawTable as Model;

#[derive(Clone, Copy, Debug, PartialEq, Eq)]
enum Op {
    Insert(u8),
    Remove(u8),
    Find(u8),
    Clear,
    DrainAll,
}

#[derive(Debug, PartialEq, Eq, Clone)]
struct Obs {
    res: i64, // insert: 1 ok / 0 refused / -1 skipped; remove/find: value or -1; clear: 0
    len: usize,
    cap: usize,
}

fn hash_of(tab: &[u8; 4], k: u8) -> u64 {
    (tab[k as usize] as u64 + 1).wrapping_mul(0x9E37_79B9_7F4A_7C15)
}

fn run_real(cap: usize, tab: &[u8; 4], script: &[Op]) -> Vec<Obs> {
    let mut t: Real<(u8, u32)> = Real::with_capacity(cap);
    let mut out = vec![Obs { res: 0, len: t.len(), cap: t.capacity() }];
    let mut stamp = 100u32;
    for op in script {
        let res = match *op {
            Op::Insert(k) => {
                if t.find(hash_of(tab, k), |e| e.0 == k).is_some() {
                    -1
                } else {
                    stamp += 1;
                    match t.try_insert_no_grow(hash_of(tab, k), (k, stamp)) {
                        Ok(_) => 1,
                        Err(_) => 0,
                    }
                }
            }
            Op::Remove(k) => t.remove_entry(hash_of(tab, k), |e| e.0 == k).map_or(-1, |e| e.1 as i64),
            Op::Find(k) => t.get(hash_of(tab, k), |e| e.0 == k).map_or(-1, |e| e.1 as i64),
            Op::Clear => {
                t.clear_no_drop();
                0
            }
            Op::DrainAll => {
                let mut s = 0i64;
                for e in t.drain() {
                    s += e.1 as i64;
                }
                s
            }
        };
        out.push(Obs { res, len: t.len(), cap: t.capacity() });
    }
    out
}

fn run_model(cap: usize, tab: &[u8; 4], script: &[Op], choices: u16) -> Option<Vec<Obs>> {
    hbmodel::model::reset();
    unsafe {
        hbmodel::model::NONDET_TOMBSTONES = true;
        for i in 0..16 {
            hbmodel::model::CHOICES[i] = ((choices >> i) & 1) as u8;
        }
    }
    if hbmodel::model::capacity_to_buckets(cap.max(1)).map_or(true, |b| b > hbmodel::model::MAX_BUCKETS) {
        return None;
    }
    let mut t: Model<(u8, u32)> = Model::with_capacity(cap);
    let mut out = vec![Obs { res: 0, len: t.len(), cap: t.capacity() }];
    let mut stamp = 100u32;
    for op in script {
        let res = match *op {
            Op::Insert(k) => {
                if t.find(hash_of(tab, k), |e| e.0 == k).is_some() {
                    -1
                } else {
                    stamp += 1;
                    match t.try_insert_no_grow(hash_of(tab, k), (k, stamp)) {
                        Ok(_) => 1,
                        Err(_) => 0,
                    }
                }
            }
            Op::Remove(k) => t.remove_entry(hash_of(tab, k), |e| e.0 == k).map_or(-1, |e| e.1 as i64),
            Op::Find(k) => t.get(hash_of(tab, k), |e| e.0 == k).map_or(-1, |e| e.1 as i64),
            Op::Clear => {
                t.clear_no_drop();
                0
            }
            Op::DrainAll => {
                let mut s = 0i64;
                for e in t.drain() {
                    s += e.1 as i64;
                }
                s
            }
        };
        out.push(Obs { res, len: t.len(), cap: t.capacity() });
    }
    Some(out)
}

fn main() {
    let depth: usize = std::env::args().nth(1).and_then(|s| s.parse().ok()).unwrap_or(5);
    let mut ops = vec![Op::Clear, Op::DrainAll];
    for k in 0..4u8 {
        ops.push(Op::Insert(k));
        ops.push(Op::Remove(k));
        ops.push(Op::Find(k));
    }
    let tabs: [[u8; 4]; 4] = [[0, 0, 0, 0], [0, 1, 0, 1], [0, 1, 2, 3], [0, 0, 1, 2]];
    let caps = [0usize, 1, 3, 4, 7, 8, 14];
    let mut scripts = 0u64;
    let mut mismatches = 0u64;
    let mut tomb_needed = 0u64;
    let mut idx = vec![0usize; depth];
    // all scripts of exactly `depth` ops (prefixes are covered by the per-step observations)
    loop {
        let script: Vec<Op> = idx.iter().map(|&i| ops[i]).collect();
        let removes = script.iter().filter(|o| matches!(o, Op::Remove(_))).count();
        for tab in &tabs {
            for &cap in &caps {
                let real = run_real(cap, tab, &script);
                scripts += 1;
                let mut ok = false;
                for choices in 0..(1u16 << removes) {
                    match run_model(cap, tab, &script, choices) {
                        Some(m) => {
                            if m == real {
                                ok = true;
                                if choices != 0 {
                                    tomb_needed += 1;
                                }
                                break;
                            }
                        }
                        None => {
                            ok = true;
                            break;
                        }
                    }
                }
                if !ok {
                    mismatches += 1;
                    if mismatches <= 5 {
                        eprintln!("MISMATCH cap={} tab={:?} script={:?}\n real={:?}\n model(no tombstones)={:?}", cap, tab, script, real, run_model(cap, tab, &script, 0));
                    }
                }
            }
        }
        // next index vector
        let mut p = depth;
        loop {
            if p == 0 {
                break;
            }
            p -= 1;
            idx[p] += 1;
            if idx[p] < ops.len() {
                break;
            }
            idx[p] = 0;
            if p == 0 {
                p = usize::MAX;
                break;
            }
        }
        if p == usize::MAX {
            break;
        }
        if depth == 0 {
            break;
        }
    }
    // capacity rounding: the model's copy of hashbrown's arithmetic vs. the real table
    let mut rounding = 0u64;
    for req in 0..=100_000usize {
        let real_cap = Real::<u8>::with_capacity(req).capacity();
        let model_cap = if req == 0 { 0 } else { hbmodel::model::buckets_to_capacity(hbmodel::model::capacity_to_buckets(req).unwrap()) };
        rounding += 1;
        if real_cap != model_cap {
            mismatches += 1;
            eprintln!("ROUNDING MISMATCH req={} real={} model={}", req, real_cap, model_cap);
        }
    }
    println!("MODEL-VALIDATION scripts={} rounding_requests={} tombstone_choice_needed={} mismatches={}", scripts, rounding, tomb_needed, mismatches);
    if mismatches != 0 {
        std::process::exit(1);
    }
}
