#!/bin/sh
# Run once after a fresh restore, offline: builds the native helpers from files on disk only.
cd "$(dirname "$0")" || exit 2
export CARGO_NET_OFFLINE=true
set -e
# 1. differential validation of the hashbrown contract model (also builds the validator)
(cd model/validate && cargo run --release -q --offline -- 4)
(cd model/validate && RUSTFLAGS="--cfg model16" CARGO_TARGET_DIR=target/m16 cargo run --release -q --offline -- 3)
# 2. the SMT lemma needs z3/cvc5 from the tooling venv
/opt/veriftools/pyvenv/bin/python smt/growth_bound.py > /dev/null
# 3. tool presence
cargo kani --version
echo "setup ok"
